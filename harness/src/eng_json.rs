//! C13: qgraph JSON round trips.  One execution = one diagram (family member or seeded random
//! diagram, decorated with phases of denominators {1,2,3,4,8,16,256} or any d <= 256, coordinates that are random
//! multiples of 0.1, a scalar of one of the classes one / sqrt2^p e^{i k pi/4} / generic
//! Z[omega][1/2] value / zero, occasionally an H-box) pushed through
//!   encode_decode  quizx::json::encode_graph -> decode_graph          (vec and hash backend)
//!   serde_hash     serde_json::to_string -> from_str of hash_graph::Graph
//!   file           quizx::json::write_graph -> read_graph             (alternating backend)
//! Logged per round trip: the emitted text, parsed with serde_json::Value and PROJECTED by this file
//! (an independent reader: own phase-string parser, own scalar arithmetic) into the abstract document
//! of spec/JsonG.tla; the decoded graph (abs_ext); the scalar verdicts that need floating point.
//! mc/Trace_JsonG.tla decides everything else.
//!
//!   --fam <spec>   family as in the other engines (k=,tys=,phs=,ets=,nb=,bb=), repeatable
//!   --stride n     keep 1/n of the enumerated diagrams (class = seed mod n)
//!   --random N     seeded random diagrams;  --rand maxsp=,maxb=,minsp=,pedge=
//!   --big N        seeded random diagrams with 9..16 spiders (isomorphism only, no denotation)
//!   --named        a fixed list of small diagrams x every scalar of the catalogue
//!   --dir <path>   where the `file` round trip writes (default <out>_files)
//!   --api N        audit item #24: the conversion API with caller-chosen options and documents of OTHER writers.
//!                  Groups of ~25 events under a reset with the empty diagram:
//!                    phase_dec    JsonPhase::to_phase on phase texts as pyzx & co. write them ("3pi/4", "3*pi/4", "-pi",
//!                                 "π/2", "\\pi", "0.25", "2.5e-1*pi", "~1/3", ...).  The text is RENDERED by this file from a
//!                                 SHAPE record (sign, numerator, pi, denominator | mantissa, exponent); the shape is
//!                                 logged and spec/JsonG.tla gives its value (PhShapeVal), the independent reader
//!                                 read_phase() re-reads the text as a cross-check of this file's two halves.
//!                    phase_enc    JsonPhase::from_phase(p, PhaseOptions { caller-chosen }) and to_phase of the result
//!                    scalar_conv  JsonScalar::from(&s) / from(s), Scalar4::try_from(&js) / try_from(js): all four pairings
//!                    scalar_dec   hand-written scalar documents: power2, foreign phase texts, floatfactor absent / 1.0 /
//!                                 other, phasenodes, is_zero, is_unknown, JsonScalar::unknown()
//!                  and N/2 (at least 20) diagrams written by THIS file in the shapes other writers use (event `foreign`):
//!                  hadamard-typed edges, foreign phase texts, boolean input/output flags, missing annotations,
//!                  arbitrary names, parallel edges, virtual nodes joined to each other; decoded with decode_graph.

use crate::absg::{abs_ext, build, sc_exact};
use crate::eng_tensor::exact_to_c;
use crate::gens::{self, Family, RandCfg};
use crate::util::{arg_flag, arg_num, arg_val, guarded, Tr};
use num::complex::Complex;
use quizx::graph::GraphLike;
use quizx::scalar::Scalar4;
use rand::rngs::StdRng;
use rand::Rng;
use serde_json::{json, Value};
use std::path::Path;

type VecG = quizx::vec_graph::Graph;
type HashG = quizx::hash_graph::Graph;

fn parse_family(s: &str) -> Family {
    let mut f = Family { k: 2, tys: vec!["Z"], phs: vec![0], ets: vec!["H"], nb: 0, vars: vec![], bb: false };
    for kv in s.split(',') {
        let (k, v) = kv.split_once('=').expect("k=v");
        match k {
            "k" => f.k = v.parse().unwrap(),
            "tys" => f.tys = v.chars().map(|c| if c == 'Z' { "Z" } else { "X" }).collect(),
            "phs" => f.phs = v.chars().map(|c| c.to_digit(10).unwrap() as i64).collect(),
            "ets" => f.ets = v.chars().map(|c| if c == 'N' { "N" } else { "H" }).collect(),
            "nb" => f.nb = v.parse().unwrap(),
            "bb" => f.bb = v == "1",
            _ => panic!("family key {k}"),
        }
    }
    f
}

fn parse_rand(s: &str) -> RandCfg {
    let mut c = RandCfg { scalars: false, ..RandCfg::any_zx() };
    for kv in s.split(',').filter(|x| !x.is_empty()) {
        let (k, v) = kv.split_once('=').expect("k=v");
        match k {
            "minsp" => c.min_sp = v.parse().unwrap(),
            "maxsp" => c.max_sp = v.parse().unwrap(),
            "maxb" => c.max_b = v.parse().unwrap(),
            "pedge" => c.pedge = v.parse().unwrap(),
            _ => panic!("rand key {k}"),
        }
    }
    c
}

fn clean(s: &str) -> String {
    s.chars().filter(|c| c.is_ascii() && *c != '"' && *c != '\\' && *c != '\n').take(160).collect()
}

// ---------------------------------------------------------------------------------------------
// decoration of a generated diagram
// ---------------------------------------------------------------------------------------------

/// generic elements of Z[omega]: none of them is sqrt2^p e^{i k pi/4}
const GENERIC: [[i64; 4]; 8] = [
    [1, 2, 0, 0],   // 1 + 2w
    [3, 0, -1, 0],  // 3 - w^2
    [1, 1, 0, 0],   // 1 + w
    [2, 1, 0, 0],
    [1, 1, 0, 2],
    [-3, 0, 0, 1],
    [0, 3, 0, 0],   // 3w: one coefficient, not a power of two
    [5, -2, 1, 1],
];

/// own classification of [a,b,c,d,e] (tags only; the verdict uses Ring!ExactPhasePow in TLC)
fn sc_class(s: &[i64; 5]) -> &'static str {
    let c = [s[0], s[1], s[2], s[3]];
    if c == [0, 0, 0, 0] {
        return "zero";
    }
    if c == [1, 0, 0, 0] && s[4] == 0 {
        return "one";
    }
    let single_pow2 = |x: &[i64; 4]| {
        let nz: Vec<i64> = x.iter().copied().filter(|v| *v != 0).collect();
        nz.len() == 1 && (nz[0].unsigned_abs()).is_power_of_two()
    };
    // x * sqrt2 = x * (w - w^3)
    let t = [c[1] - c[3], c[0] + c[2], c[1] + c[3], c[2] - c[0]];
    if single_pow2(&c) || single_pow2(&t) {
        "exact"
    } else {
        "inexact"
    }
}

/// the scalar catalogue: index -> [a,b,c,d,e]
fn catalogue_scalar(r: &mut StdRng, class: usize) -> [i64; 5] {
    match class {
        0 => [1, 0, 0, 0, 0],
        1 => {
            // sqrt2^p e^{i k pi/4}
            let p: i32 = r.random_range(-12..=12);
            let k: usize = r.random_range(0..8);
            let (mut c, e) = if p.rem_euclid(2) == 0 { ([1i64, 0, 0, 0], p / 2) } else { ([0i64, 1, 0, -1], (p - 1) / 2) };
            for _ in 0..k {
                c = [-c[3], c[0], c[1], c[2]];
            }
            [c[0], c[1], c[2], c[3], e as i64]
        }
        2 => {
            let g = GENERIC[r.random_range(0..GENERIC.len())];
            [g[0], g[1], g[2], g[3], r.random_range(-8..=8)]
        }
        3 => {
            // random small coefficients (any class)
            let mut s = [0i64; 5];
            for x in s.iter_mut().take(4) {
                *x = r.random_range(-3..=3);
            }
            s[4] = r.random_range(-4..=4);
            s
        }
        _ => [0, 0, 0, 0, 0],
    }
}

const DENS: [i64; 7] = [1, 2, 3, 4, 8, 16, 256];

struct Deco {
    other_phases: bool,
    zero_coords: bool,
    hbox: bool,
    sc: [i64; 5],
}

fn decorate(a: &Value, r: &mut StdRng, d: &Deco) -> Value {
    let mut a = a.clone();
    let nv = a["v"].as_array().unwrap().len();
    for v in a["v"].as_array_mut().unwrap() {
        let is_b = v["ty"] == "B";
        if !d.zero_coords {
            // multiples of 0.1, also negative
            v["r"] = json!(r.random_range(-50..=120) as f64 / 10.0);
            v["q"] = json!(r.random_range(-50..=120) as f64 / 10.0);
        }
        if !is_b && d.other_phases && r.random_bool(0.6) {
            // the listed denominators, or any denominator up to 256
            let den = if r.random_bool(0.6) { DENS[r.random_range(0..DENS.len())] } else { r.random_range(1..=256) };
            let num = r.random_range(-(2 * den)..=(2 * den));
            v["ph"] = json!([num, den]);
        }
        if !is_b && d.hbox && r.random_bool(if nv <= 3 { 0.7 } else { 0.3 }) {
            v["ty"] = json!("Hbox");
            if r.random_bool(0.5) {
                v["ph"] = json!([1, 1]); // the default phase of an H-box (written as "")
            }
        }
    }
    a["sc"] = json!(d.sc);
    a
}

// ---------------------------------------------------------------------------------------------
// the independent reader: emitted text -> abstract document
// ---------------------------------------------------------------------------------------------

/// The independent reader of phase texts: "3*pi/4", "-pi/2", "pi", "7/4", "0", "~5*pi/13", "3pi/4", "π/2", "\\pi",
/// "0.25", "2.5e-1*pi" -> (n, d) (not reduced); "" -> None.  Own grammar, own decimal arithmetic (no floats):
///   text := ["~"] [sign] [number] ["*"] [pi] ["*"] [number'] ["/" integer]      (exactly one number or a pi)
fn read_phase(s: &str) -> Result<Option<(i64, i64)>, String> {
    let t: String = s.chars().filter(|c| !c.is_whitespace() && *c != '~').collect::<String>().to_lowercase();
    if t.is_empty() {
        return Ok(None);
    }
    let t = t.replace("\\pi", "P").replace("pi", "P").replace('π', "P");
    let haspi = t.contains('P');
    let (left, den) = match t.split_once('/') {
        Some((a, b)) => {
            let b: String = b.chars().filter(|c| *c != 'P' && *c != '*').collect();
            (a.to_string(), b.parse::<i64>().map_err(|_| format!("denominator of {s}"))?)
        }
        None => (t.clone(), 1),
    };
    if den <= 0 {
        return Err(format!("denominator of {s}"));
    }
    let num: String = left.chars().filter(|c| *c != 'P' && *c != '*').collect();
    let (n, d) = match num.as_str() {
        "" | "+" if haspi => (1, 1),
        "-" if haspi => (-1, 1),
        _ => read_decimal(&num).ok_or(format!("numerator of {s}"))?,
    };
    let d2 = d.checked_mul(den).ok_or("overflow")?;
    // lowest terms (a decimal such as 107421875.0e-8 would otherwise not fit the trace's small integers)
    let g = {
        let (mut a, mut b) = (n.abs(), d2);
        while b != 0 {
            (a, b) = (b, a % b);
        }
        a.max(1)
    };
    Ok(Some((n / g, d2 / g)))
}

/// [sign] digits [. digits] [e [sign] digits] -> (n, 10^k), exactly
fn read_decimal(x: &str) -> Option<(i64, i64)> {
    let (neg, body) = match x.strip_prefix('-') {
        Some(r) => (true, r),
        None => (false, x.strip_prefix('+').unwrap_or(x)),
    };
    let (mant, exp) = match body.split_once('e') {
        Some((m, e)) => (m, e.parse::<i32>().ok()?),
        None => (body, 0),
    };
    let (ip, fp) = mant.split_once('.').unwrap_or((mant, ""));
    if ip.is_empty() && fp.is_empty() || !ip.chars().chain(fp.chars()).all(|c| c.is_ascii_digit()) {
        return None;
    }
    let digits = format!("{ip}{fp}");
    let mut n: i64 = digits.parse().ok()?;
    let mut k = exp - fp.len() as i32; // value = n * 10^k
    let mut d: i64 = 1;
    while k > 0 {
        n = n.checked_mul(10)?;
        k -= 1;
    }
    while k < 0 {
        d = d.checked_mul(10)?;
        k += 1;
    }
    Some((if neg { -n } else { n }, d))
}

fn small_pair(p: Option<(i64, i64)>) -> Result<Value, String> {
    match p {
        None => Ok(json!([0, 0])),
        Some((n, d)) if n.abs() < (1 << 30) && d < (1 << 30) => Ok(json!([n, d])),
        Some((n, d)) => Err(format!("phase {n}/{d} too large")),
    }
}

fn name_key(s: &str) -> (String, u64) {
    let pos = s.find(|c: char| c.is_ascii_digit()).unwrap_or(s.len());
    (s[..pos].to_string(), s[pos..].parse::<u64>().unwrap_or(u64::MAX))
}

fn milli(v: &Value) -> Result<i64, String> {
    let f = v.as_f64().ok_or("coordinate is not a number")?;
    let m = (f * 1000.0).round();
    if m.abs() > 1e9 {
        return Err("coordinate too large".into());
    }
    Ok(m as i64)
}

fn coord_of(ann: &Value) -> Result<Value, String> {
    match ann.get("coord") {
        None => Ok(json!([0, 0])),
        Some(c) => Ok(json!([milli(&c[0])?, milli(&c[1])?])),
    }
}

fn io_index(ann: &Value, key: &str) -> Result<i64, String> {
    match ann.get(key) {
        None => Ok(-1),
        Some(Value::Number(n)) => n.as_i64().filter(|x| *x >= 0 && *x < 1 << 20).ok_or(format!("{key} index")),
        // older pyzx: a flag "this wire is an input"; unambiguous only with a single such wire, which is all the
        // foreign-document generator below writes
        Some(Value::Bool(b)) => Ok(if *b { 0 } else { -1 }),
        Some(_) => Err(format!("{key} is not a number")),
    }
}

struct DocView {
    doc: Value,
    /// the scalar a reader computes from the scalar fields with doubles (None: absent = 1)
    scalar: Complex<f64>,
}

fn project_doc(text: &str) -> Result<DocView, String> {
    let v: Value = serde_json::from_str(text).map_err(|e| format!("not JSON: {e}"))?;
    let obj = |k: &str| -> Vec<(String, Value)> {
        let mut xs: Vec<(String, Value)> =
            v.get(k).and_then(|m| m.as_object()).map(|m| m.iter().map(|(a, b)| (a.clone(), b.clone())).collect()).unwrap_or_default();
        xs.sort_by_key(|(n, _)| name_key(n));
        xs
    };
    let mut wires = vec![];
    for (name, at) in obj("wire_vertices") {
        let ann = at.get("annotation").cloned().unwrap_or(json!({}));
        wires.push(json!({"name": name, "boundary": ann.get("boundary").and_then(|b| b.as_bool()).unwrap_or(false),
                          "coord": coord_of(&ann)?, "input": io_index(&ann, "input")?, "output": io_index(&ann, "output")?}));
    }
    let mut nodes = vec![];
    for (name, at) in obj("node_vertices") {
        let ann = at.get("annotation").cloned().unwrap_or(json!({}));
        let data = at.get("data").cloned().unwrap_or(json!({}));
        let ty = data.get("type").and_then(|t| t.as_str()).unwrap_or("Z").to_string();
        let value = small_pair(read_phase(data.get("value").and_then(|t| t.as_str()).unwrap_or(""))?)?;
        let is_edge = match data.get("is_edge") {
            None => false,
            Some(Value::String(s)) => s == "true",
            Some(Value::Bool(b)) => *b,
            Some(_) => return Err("is_edge".into()),
        };
        nodes.push(json!({"name": name, "type": ty, "value": value, "is_edge": is_edge, "coord": coord_of(&ann)?}));
    }
    let mut edges = vec![];
    for (_, at) in obj("undir_edges") {
        let src = at.get("src").and_then(|t| t.as_str()).ok_or("edge without src")?;
        let tgt = at.get("tgt").and_then(|t| t.as_str()).ok_or("edge without tgt")?;
        let ty = at.get("type").and_then(|t| t.as_str()).unwrap_or("simple");
        edges.push(json!({"src": src, "tgt": tgt, "type": ty}));
    }
    // the scalar: a JSON text inside a string field
    let mut sc = json!({"present": false, "power2": 0, "phase": [0, 0], "ff": "absent", "is_zero": false});
    let mut val = Complex::new(1.0, 0.0);
    if let Some(s) = v.get("scalar").and_then(|s| s.as_str()).filter(|s| !s.is_empty()) {
        let j: Value = serde_json::from_str(s).map_err(|e| format!("scalar is not JSON: {e}"))?;
        if j.get("phasenodes").and_then(|p| p.as_array()).map(|p| !p.is_empty()).unwrap_or(false)
            || j.get("is_unknown").and_then(|p| p.as_bool()).unwrap_or(false)
        {
            return Err("scalar with phasenodes / is_unknown".into());
        }
        let power2 = j.get("power2").and_then(|p| p.as_i64()).unwrap_or(0);
        if power2.abs() >= 1 << 20 {
            return Err("power2 too large".into());
        }
        let ph = read_phase(j.get("phase").and_then(|p| p.as_str()).unwrap_or(""))?;
        let is_zero = j.get("is_zero").and_then(|p| p.as_bool()).unwrap_or(false);
        let (ff, ffv) = match j.get("floatfactor") {
            None => ("absent", 1.0),
            Some(f) => {
                let f = f.as_f64().ok_or("floatfactor is not a number")?;
                if f == 1.0 {
                    ("one", 1.0)
                } else {
                    ("other", f)
                }
            }
        };
        let angle = ph.map(|(n, d)| n as f64 / d as f64).unwrap_or(0.0) * std::f64::consts::PI;
        val = if is_zero { Complex::new(0.0, 0.0) } else { Complex::from_polar(ffv * 2f64.powf(power2 as f64 / 2.0), angle) };
        // with a float factor the angle is a float-derived rational: opaque to the specification
        let phase = if ff == "other" { json!([0, 0]) } else { small_pair(ph)? };
        sc = json!({"present": true, "power2": power2, "phase": phase, "ff": ff, "is_zero": is_zero});
    }
    Ok(DocView { doc: json!({"wire_vertices": wires, "node_vertices": nodes, "undir_edges": edges, "scalar": sc}), scalar: val })
}

// ---------------------------------------------------------------------------------------------
// scalars with doubles (the clauses TLA+ cannot state)
// ---------------------------------------------------------------------------------------------

/// complex value from the raw stored parts (not through the library's f64 conversion)
fn raw_to_c(s: &Scalar4) -> Complex<f64> {
    let c: Vec<f64> = s
        .verif_coeffs()
        .iter()
        .map(|d| {
            let (neg, m, e, _) = d.verif_raw();
            let x = (m as f64) * 2f64.powi(e);
            if neg {
                -x
            } else {
                x
            }
        })
        .collect();
    let r = std::f64::consts::FRAC_1_SQRT_2;
    Complex::new(c[0] + (c[1] - c[3]) * r, c[2] + (c[1] + c[3]) * r)
}

fn rel_err(want: Complex<f64>, got: Complex<f64>) -> f64 {
    let d = (want - got).norm();
    if d == 0.0 {
        0.0
    } else if want.norm() == 0.0 {
        f64::INFINITY
    } else {
        d / want.norm()
    }
}

fn ppb(x: f64) -> i64 {
    let y = (x * 1e9).round();
    if y.is_nan() || y > 2e9 {
        2_000_000_000
    } else {
        y as i64
    }
}

// ---------------------------------------------------------------------------------------------
// one round trip
// ---------------------------------------------------------------------------------------------

fn attempt<T>(f: impl FnOnce() -> Result<T, String>, errname: &str) -> Result<T, (String, String)> {
    match guarded(f) {
        Err(p) => Err(("panic".to_string(), p)),
        Ok(Err(m)) => Err((errname.to_string(), clean(&m))),
        Ok(Ok(t)) => Ok(t),
    }
}

fn roundtrip<G: GraphLike>(
    via: &str,
    be: &str,
    tags: &[String],
    pre_sc: &Scalar4,
    enc: impl FnOnce() -> Result<String, String>,
    dec: impl FnOnce(&str) -> Result<G, String>,
) -> Value {
    let mut tags: Vec<String> = tags.to_vec();
    tags.push(format!("via={via}"));
    let fail = |res: &str, msg: &str| json!({"k": "roundtrip", "via": via, "be": be, "res": res, "msg": msg, "tags": tags});
    let text = match attempt(enc, "encode_err") {
        Ok(t) => t,
        Err((res, msg)) => return fail(&res, &msg),
    };
    let view = match project_doc(&text) {
        Ok(d) => d,
        Err(m) => return fail("unreadable", &clean(&m)),
    };
    let g2: G = match attempt(|| dec(&text), "decode_err") {
        Ok(g) => g,
        Err((res, msg)) => {
            let mut e = fail(&res, &msg);
            e["doc"] = view.doc;
            return e;
        }
    };
    let mut post = abs_ext(&g2);
    post.as_object_mut().unwrap().remove("n");
    let sc_big = post["sc"].is_string();
    if sc_big {
        post["sc"] = json!([0, 0, 0, 0, 0]);
    }
    let want = exact_to_c(pre_sc).expect("input scalars are small");
    let kept = match (sc_exact(pre_sc), sc_exact(g2.scalar())) {
        (Some(a), Some(b)) => a == b,
        _ => false,
    };
    let err_post = rel_err(want, raw_to_c(g2.scalar()));
    let err_doc = rel_err(want, view.scalar);
    json!({"k": "roundtrip", "via": via, "be": be, "res": "ok", "doc": view.doc, "post": post, "sc_big": sc_big,
           "scalar_exact_kept": kept, "scalar_close": err_post <= 1e-9, "doc_scalar_close": err_doc <= 1e-9,
           "relerr_ppb": ppb(err_post), "doc_relerr_ppb": ppb(err_doc), "tags": tags})
}

struct Ctx {
    dir: String,
    count: usize,
    events: usize,
    failures: usize,
    max_ppb_exact: i64,
    max_ppb_inexact: i64,
}

fn record_diagram(a: &Value, extra_tags: &[&str], cx: &mut Ctx, tr: &mut Tr) {
    cx.count += 1;
    let gv: VecG = build(a);
    let gh: HashG = build(a);
    let mut pre = abs_ext(&gv);
    pre.as_object_mut().unwrap().remove("n");
    {
        let mut p2 = abs_ext(&gh);
        p2.as_object_mut().unwrap().remove("n");
        assert_eq!(pre, p2, "the two backends were built differently");
    }
    let scv: Vec<i64> = a["sc"].as_array().unwrap().iter().map(|x| x.as_i64().unwrap()).collect();
    let class = sc_class(&[scv[0], scv[1], scv[2], scv[3], scv[4]]);
    let vs = a["v"].as_array().unwrap();
    let pi4 = vs.iter().all(|v| 4 % v["ph"][1].as_i64().unwrap() == 0);
    let mut tags: Vec<String> = vec![format!("sc={class}"), format!("ph={}", if pi4 { "pi4" } else { "other" })];
    if vs.iter().any(|v| v["ty"] == "Hbox") {
        tags.push("hbox".into());
    }
    if a["e"].as_array().unwrap().iter().any(|e| e["t"] == "H") {
        tags.push("hedge".into());
    }
    tags.extend(extra_tags.iter().map(|s| s.to_string()));
    tr.group();
    tr.emit(json!({"k": "reset", "pre": pre}));
    let pre_sc = *gv.scalar();
    let je = |e: quizx::json::JsonError| format!("{e}");
    let mut evs = vec![
        roundtrip::<VecG>("encode_decode", "vec", &tags, &pre_sc, || quizx::json::encode_graph(&gv).map_err(je), |s| quizx::json::decode_graph::<VecG>(s).map_err(je)),
        roundtrip::<HashG>("encode_decode", "hash", &tags, &pre_sc, || quizx::json::encode_graph(&gh).map_err(je), |s| quizx::json::decode_graph::<HashG>(s).map_err(je)),
        roundtrip::<HashG>("serde_hash", "hash", &tags, &pre_sc, || serde_json::to_string(&gh).map_err(|e| format!("{e}")), |s| serde_json::from_str::<HashG>(s).map_err(|e| format!("{e}"))),
    ];
    let path = format!("{}/rt_{}.qgraph", cx.dir, cx.count);
    let p = Path::new(&path);
    let read_back = || std::fs::read_to_string(p).map_err(|e| format!("cannot read the written file: {e}"));
    // RE-USE of a path (seed C13_f): every third diagram is saved over a file that already holds the encoding of a BIGGER diagram
    // (the same diagram with eight further spiders), as when a diagram is loaded, simplified and saved back
    if cx.count % 3 == 0 {
        let mut big = gv.clone();
        for i in 0..8 {
            big.add_vertex_with_phase(quizx::graph::VType::Z, num::Rational64::new(i % 8, 4));
        }
        let _ = quizx::json::write_graph(&big, p);
        tags.push("over_longer_file".into());
    }
    if cx.count % 2 == 0 {
        evs.push(roundtrip::<VecG>("file", "vec", &tags, &pre_sc, || quizx::json::write_graph(&gv, p).map_err(je).and_then(|_| read_back()),
                                   |_| quizx::json::read_graph::<VecG>(p).map_err(je)));
    } else {
        evs.push(roundtrip::<HashG>("file", "hash", &tags, &pre_sc, || quizx::json::write_graph(&gh, p).map_err(je).and_then(|_| read_back()),
                                    |_| quizx::json::read_graph::<HashG>(p).map_err(je)));
    }
    let _ = std::fs::remove_file(p);
    for e in evs {
        cx.events += 1;
        if e["res"] != "ok" {
            cx.failures += 1;
        } else {
            let x = e["relerr_ppb"].as_i64().unwrap();
            if class == "inexact" {
                cx.max_ppb_inexact = cx.max_ppb_inexact.max(x);
            } else {
                cx.max_ppb_exact = cx.max_ppb_exact.max(x);
            }
        }
        tr.emit(e);
    }
}

fn named() -> Vec<Value> {
    use crate::gens::{mk, AV};
    let z = |id, ph| AV { id, ty: "Z", ph, vars: vec![] };
    let x = |id, ph| AV { id, ty: "X", ph, vars: vec![] };
    let b = |id| AV { id, ty: "B", ph: 0, vars: vec![] };
    let one = [1, 0, 0, 0, 0];
    vec![
        mk(&[], &[], &[], &[], one),                                                               // the empty diagram
        mk(&[z(0, 0)], &[], &[], &[], one),                                                        // one spider (the scalar carrier)
        mk(&[b(0), b(1)], &[(0, 1, "N")], &[0], &[1], one),                                        // a wire
        mk(&[b(0), b(1)], &[(0, 1, "H")], &[0], &[1], one),                                        // a Hadamard wire
        mk(&[b(3), z(1, 1), x(2, 7), b(0)], &[(3, 1, "H"), (1, 2, "H"), (2, 0, "N")], &[3], &[0], one),
        mk(&[b(0), b(1), b(2), b(3), z(4, 2), z(5, 2)], &[(0, 4, "N"), (1, 5, "N"), (4, 5, "H"), (4, 2, "N"), (5, 3, "H")], &[1, 0], &[3, 2], one),
        mk(&[b(5), b(6), z(0, 0), z(1, 0), z(2, 0)], &[(0, 1, "H"), (1, 2, "H"), (0, 2, "H"), (5, 0, "N"), (6, 1, "N")], &[6, 5], &[], one), // symmetric
    ]
}

// ---------------------------------------------------------------------------------------------
// --api: caller-chosen options and documents of other writers (audit #24)
// ---------------------------------------------------------------------------------------------

use quizx::json::{JsonPhase, JsonScalar, PhaseOptions};
use quizx::phase::Phase;

/// what a phase text is made of; spec/JsonG.tla PhShapeVal gives its value
#[derive(Clone, Debug)]
enum Shape {
    Empty,
    /// [-] [num] [pi] [/ den]   (num or pi present)
    Frac { neg: bool, num: Option<i64>, pi: bool, den: Option<i64> },
    /// [-] mant * 10^exp10 [pi]
    Dec { neg: bool, mant: i64, exp10: i32, pi: bool },
}

fn shape_json(sh: &Shape) -> Value {
    match sh {
        Shape::Empty => json!({"kind": "empty", "neg": false, "hasnum": false, "num": 0, "pi": false, "hasden": false, "den": 1, "mant": 0, "exp10": 0}),
        Shape::Frac { neg, num, pi, den } => json!({"kind": "frac", "neg": neg, "hasnum": num.is_some(), "num": num.unwrap_or(0), "pi": pi,
                                                    "hasden": den.is_some(), "den": den.unwrap_or(1), "mant": 0, "exp10": 0}),
        Shape::Dec { neg, mant, exp10, pi } => json!({"kind": "dec", "neg": neg, "hasnum": true, "num": 0, "pi": pi, "hasden": false, "den": 1,
                                                      "mant": mant, "exp10": exp10}),
    }
}

const PI_SPELLINGS: [&str; 6] = ["pi", "PI", "Pi", "π", "\\pi", "pi"];

/// one of the spellings other writers use for the shape
fn render(sh: &Shape, r: &mut StdRng) -> String {
    let sp = |r: &mut StdRng| if r.random_bool(0.15) { " " } else { "" };
    let tilde = if r.random_bool(0.1) { "~" } else { "" };
    match sh {
        Shape::Empty => String::new(),
        Shape::Frac { neg, num, pi, den } => {
            let sign = if *neg { "-" } else { "" };
            let pis = PI_SPELLINGS[r.random_range(0..PI_SPELLINGS.len())];
            let dens = den.map(|d| format!("{}/{}{}", sp(r), sp(r), d)).unwrap_or_default();
            match (num, pi) {
                (None, _) => format!("{tilde}{sign}{pis}{dens}"),
                (Some(n), false) => format!("{tilde}{sign}{n}{dens}"),
                (Some(n), true) => match r.random_range(0..5) {
                    0 => format!("{tilde}{sign}{n}*{pis}{dens}"),                 // 3*pi/4   (quizx, pyzx)
                    1 => format!("{tilde}{sign}{n}{pis}{dens}"),                  // 3pi/4
                    2 => format!("{tilde}{sign}{n}{}*{}{pis}{dens}", sp(r), sp(r)), // 3 * pi / 4
                    3 if den.is_some() => format!("{tilde}{sign}{n}{dens}{}*{}{pis}", sp(r), sp(r)), // 3/4 * pi
                    _ => format!("{tilde}{sign}{n}{dens}{pis}").replace("/ ", "/"),  // 3/4pi (or 3pi)
                },
            }
        }
        Shape::Dec { neg, mant, exp10, pi } => {
            let sign = if *neg { "-" } else { "" };
            let digits = mant.to_string();
            // mant * 10^exp10 as a decimal literal, plain or with an exponent
            let lit = if *exp10 >= 0 {
                if r.random_bool(0.5) { format!("{digits}{}.0", "0".repeat(*exp10 as usize)) } else { format!("{digits}.0e{exp10}") }
            } else {
                let k = (-*exp10) as usize;
                match r.random_range(0..3) {
                    0 => format!("{digits}.0e-{k}"),
                    1 if digits.len() > 1 => format!("{}.{}E-{}", &digits[..1], &digits[1..], k - (digits.len() - 1).min(k)).replace("E-0", "e0"),
                    _ => {
                        if digits.len() > k {
                            format!("{}.{}", &digits[..digits.len() - k], &digits[digits.len() - k..])
                        } else {
                            format!("0.{}{}", "0".repeat(k - digits.len()), digits)
                        }
                    }
                }
            };
            let pis = if *pi { format!("{}{}", ["*", "", " * "][r.random_range(0..3)], PI_SPELLINGS[r.random_range(0..PI_SPELLINGS.len())]) } else { String::new() };
            format!("{tilde}{sign}{lit}{pis}")
        }
    }
}

/// a shape whose value is n/d (frac: possibly unreduced, out of (-1, 1]); None for `dec` if n/d has no short decimal
fn shape_for(n: i64, d: i64, dec: bool, r: &mut StdRng) -> Option<Shape> {
    let neg = n < 0;
    let n = n.abs();
    if dec {
        // n/d = mant / 10^k
        let mut k = 0i32;
        let (mut num, mut den) = (n, d);
        while den != 1 && k < 8 {
            num = num.checked_mul(10)?;
            let g = gcd(num, den);
            num /= g;
            den /= g;
            k += 1;
        }
        if den != 1 || num >= 1_000_000_000 {
            return None;
        }
        return Some(Shape::Dec { neg, mant: num, exp10: -k, pi: r.random_bool(0.4) });
    }
    let pi = r.random_bool(0.7);
    let num = if n == 1 && pi && r.random_bool(0.7) { None } else { Some(n) };
    let den = if d == 1 && r.random_bool(0.8) { None } else { Some(d) };
    Some(Shape::Frac { neg, num, pi, den })
}

fn gcd(a: i64, b: i64) -> i64 {
    if b == 0 { a.abs() } else { gcd(b, a % b) }
}

fn ascii_text(s: &str) -> String {
    s.replace('π', "<PI>").replace('\\', "<BSL>").replace('"', "'")
}

fn jphase(text: &str) -> JsonPhase {
    serde_json::from_value::<JsonPhase>(json!(text)).expect("JsonPhase is a transparent string")
}

fn jphase_text(p: &JsonPhase) -> String {
    serde_json::to_value(p).ok().and_then(|v| v.as_str().map(|x| x.to_string())).unwrap_or_default()
}

/// (res, ret) of to_phase
fn decode_phase(jp: &JsonPhase) -> (&'static str, Value) {
    match guarded(|| jp.to_phase()) {
        Err(_) => ("panic", json!([0, 0])),
        Ok(Err(_)) => ("err", json!([0, 0])),
        Ok(Ok(None)) => ("none", json!([0, 0])),
        Ok(Ok(Some(p))) => {
            let q = p.to_rational();
            if q.numer().abs() < (1 << 30) && *q.denom() < (1 << 30) {
                ("ok", json!([*q.numer(), *q.denom()]))
            } else {
                ("ok_big", json!([0, 0]))
            }
        }
    }
}

fn reader_json(text: &str) -> (Value, bool) {
    match read_phase(text).and_then(small_pair) {
        Ok(v) => (v, true),
        Err(_) => (json!([0, 0]), false),
    }
}

fn phase_dec_event(sh: &Shape, r: &mut StdRng) -> Value {
    let text = render(sh, r);
    let (res, ret) = decode_phase(&jphase(&text));
    let (reader, reader_ok) = reader_json(&text);
    json!({"k": "phase_dec", "text": ascii_text(&text), "sh": shape_json(sh), "res": res, "ret": ret, "reader": reader, "reader_ok": reader_ok,
           "tags": ["api=phase_dec"]})
}

/// texts without a shape: recorded, never judged (no rational is denoted, or not unambiguously)
const RAW_TEXTS: [&str; 14] = ["-", "+", "*", "1/0", "pi/0", "abc", "1/2/3", "--1", "+1/2", "1e400", "nan", "inf", "1/-2", "0x10"];

fn phase_enc_event(n: i64, d: i64, r: &mut StdRng) -> Value {
    let p = Phase::new(num::Rational64::new(n, d));
    let pq = p.to_rational();
    let ign: Option<(i64, i64)> = match r.random_range(0..6) {
        0 => None,
        1 => Some((0, 1)),
        2 => Some((1, 1)),
        3 | 4 => Some((*pq.numer(), *pq.denom())),
        _ => Some((r.random_range(-3..=4), [1i64, 2, 4, 3][r.random_range(0..4)])),
    };
    let limit: Option<i64> = [None, Some(256), Some(256), Some(2), Some(3), Some(4), Some(8), Some(16), Some(100), Some(255), Some(257), Some(1000)][r.random_range(0..12)];
    let opts = PhaseOptions {
        ignore_value: ign.map(|(a, b)| Phase::new(num::Rational64::new(a, b))),
        ignore_approx: r.random_bool(0.5),
        ignore_pi: r.random_bool(0.5),
        limit_denom: limit,
    };
    let oj = json!({"has_ign": ign.is_some(), "ign": ign.map(|(a, b)| json!([a, b])).unwrap_or(json!([0, 1])), "ignore_approx": opts.ignore_approx,
                    "ignore_pi": opts.ignore_pi, "limit": limit.unwrap_or(0)});
    let head = json!({"k": "phase_enc", "p": [*pq.numer(), *pq.denom()], "opts": oj, "tags": ["api=phase_enc"]});
    let with = |extra: Value| {
        let mut e = head.clone();
        for (k, v) in extra.as_object().unwrap() {
            e[k.as_str()] = v.clone();
        }
        e
    };
    match guarded(|| JsonPhase::from_phase(p, opts)) {
        Err(msg) => with(json!({"res": "panic", "msg": msg})),
        Ok(jp) => {
            let text = jphase_text(&jp);
            let (doc, doc_ok) = reader_json(&text);
            let (bres, back) = decode_phase(&jp);
            with(json!({"res": "ok", "text": ascii_text(&text), "doc": doc, "doc_ok": doc_ok, "tilde": text.contains('~'),
                        "haspi": text.contains("pi") || text.contains('π'), "back_res": bres, "back": back}))
        }
    }
}

/// scalar fields of a JsonScalar text, read by this file (phasenodes / is_unknown included)
fn project_scalar_ext(text: &str) -> Result<(Value, Complex<f64>, bool), String> {
    let j: Value = serde_json::from_str(text).map_err(|e| format!("scalar is not JSON: {e}"))?;
    let power2 = j.get("power2").and_then(|p| p.as_i64()).unwrap_or(0);
    if power2.abs() >= 1 << 20 {
        return Err("power2 too large".into());
    }
    let ph = read_phase(j.get("phase").and_then(|p| p.as_str()).unwrap_or(""))?;
    let is_zero = j.get("is_zero").and_then(|p| p.as_bool()).unwrap_or(false);
    let is_unknown = j.get("is_unknown").and_then(|p| p.as_bool()).unwrap_or(false);
    let (ff, ffv) = match j.get("floatfactor") {
        None => ("absent", 1.0),
        Some(f) => {
            let f = f.as_f64().ok_or("floatfactor is not a number")?;
            if f == 1.0 { ("one", 1.0) } else { ("other", f) }
        }
    };
    let mut nodes = vec![];
    let mut val = Complex::from_polar(ffv * 2f64.powf(power2 as f64 / 2.0), ph.map(|(n, d)| n as f64 / d as f64).unwrap_or(0.0) * std::f64::consts::PI);
    for pn in j.get("phasenodes").and_then(|p| p.as_array()).cloned().unwrap_or_default() {
        let q = read_phase(pn.as_str().unwrap_or(""))?;
        nodes.push(small_pair(q)?);
        let ang = q.map(|(n, d)| n as f64 / d as f64).unwrap_or(0.0) * std::f64::consts::PI;
        val *= Complex::new(1.0, 0.0) + Complex::from_polar(1.0, ang);
    }
    if is_zero {
        val = Complex::new(0.0, 0.0);
    }
    // every phase a multiple of pi/4 and no float factor: the value is an element of the ring
    let pi4 = |q: &Option<(i64, i64)>| q.map(|(n, d)| (4 * n) % d == 0).unwrap_or(true);
    let exact_doc = ff != "other" && pi4(&ph) && j.get("phasenodes").and_then(|p| p.as_array()).map(|a| a.iter().all(|x| pi4(&read_phase(x.as_str().unwrap_or("")).unwrap_or(None)))).unwrap_or(true);
    let phase = if exact_doc { small_pair(ph)? } else { json!([0, 0]) };
    let nodes = if exact_doc { nodes } else { vec![] };
    Ok((json!({"present": true, "power2": power2, "phase": phase, "ff": ff, "is_zero": is_zero, "is_unknown": is_unknown, "phasenodes": nodes}), val, exact_doc))
}

fn scalar_post(s: &Scalar4) -> (Value, bool, bool) {
    let j = crate::absg::sc_json(s);
    let big = j.is_string();
    (if big { json!([0, 0, 0, 0, 0]) } else { j }, big, crate::absg::sc_is_approx(s))
}

/// JsonScalar::from(&s) | from(s)  x  Scalar4::try_from(&js) | try_from(js)
fn scalar_conv_events(sc: [i64; 5]) -> Vec<Value> {
    let s = Scalar4::new([sc[0], sc[1], sc[2], sc[3]], sc[4] as i32);
    let want = exact_to_c(&s).expect("catalogue scalars are small");
    let mut out = vec![];
    for enc in ["ref", "owned"] {
        for dec in ["ref", "owned"] {
            let head = json!({"k": "scalar_conv", "enc": enc, "dec": dec, "pre_sc": sc, "tags": ["api=scalar_conv", format!("sc={}", sc_class(&sc))]});
            let with = |extra: Value| {
                let mut e = head.clone();
                for (k, v) in extra.as_object().unwrap() {
                    e[k.as_str()] = v.clone();
                }
                e
            };
            let js = match guarded(|| if enc == "ref" { JsonScalar::from(&s) } else { JsonScalar::from(s) }) {
                Ok(js) => js,
                Err(msg) => {
                    out.push(with(json!({"res": "panic", "msg": msg})));
                    continue;
                }
            };
            let text = serde_json::to_string(&js).unwrap_or_default();
            let (doc, docval, _) = match project_scalar_ext(&text) {
                Ok(x) => x,
                Err(m) => {
                    out.push(with(json!({"res": "unreadable", "msg": clean(&m)})));
                    continue;
                }
            };
            let back = guarded(|| if dec == "ref" { Scalar4::try_from(&js) } else { Scalar4::try_from(js.clone()) });
            match back {
                Err(msg) => out.push(with(json!({"res": "panic", "msg": msg, "doc": doc}))),
                Ok(Err(e)) => out.push(with(json!({"res": "decode_err", "msg": clean(&format!("{e}")), "doc": doc}))),
                Ok(Ok(s2)) => {
                    let (post, big, sca) = scalar_post(&s2);
                    let kept = matches!((sc_exact(&s), sc_exact(&s2)), (Some(a), Some(b)) if a == b);
                    out.push(with(json!({"res": "ok", "doc": doc, "post_sc": post, "sc_big": big, "post_sca": sca, "scalar_exact_kept": kept,
                                         "scalar_close": rel_err(want, raw_to_c(&s2)) <= 1e-9, "doc_scalar_close": rel_err(want, docval) <= 1e-9})));
                }
            }
        }
    }
    out
}

/// a hand-written scalar document (pyzx's Scalar.to_json shapes) and its decoding
fn scalar_dec_event(r: &mut StdRng, idx: usize) -> Value {
    let pi4_phase = |r: &mut StdRng| -> String {
        let k: i64 = r.random_range(-7..=8);
        let g = gcd(k.abs(), 4).max(1);
        let sh = shape_for(k / g, 4 / g, r.random_bool(0.2), r).unwrap_or(Shape::Frac { neg: k < 0, num: Some(k.abs() / g), pi: false, den: Some(4 / g) });
        // the scalar's own phase field is written without pi by quizx and pyzx, with pi by others
        render(&sh, r)
    };
    let any_phase = |r: &mut StdRng| -> String {
        let d = [3i64, 5, 8, 16, 7][r.random_range(0..5)];
        render(&Shape::Frac { neg: r.random_bool(0.3), num: Some(r.random_range(1..2 * d)), pi: r.random_bool(0.5), den: Some(d) }, r)
    };
    let mut o = serde_json::Map::new();
    let exactish = r.random_bool(0.75);
    if r.random_bool(0.8) {
        o.insert("power2".into(), json!(r.random_range(-6..=6)));
    }
    if r.random_bool(0.85) {
        o.insert("phase".into(), json!(if exactish { pi4_phase(r) } else { any_phase(r) }));
    }
    match r.random_range(0..6) {
        0 | 1 => {}
        2 | 3 => {
            o.insert("floatfactor".into(), json!(1.0));
        }
        _ if !exactish => {
            o.insert("floatfactor".into(), json!([0.5, 3.0, 1.25, 0.1, 7.0][r.random_range(0..5)]));
        }
        _ => {}
    }
    if r.random_bool(0.45) {
        let k = r.random_range(1..=3);
        let nodes: Vec<String> = (0..k).map(|_| if exactish { pi4_phase(r) } else { any_phase(r) }).collect();
        o.insert("phasenodes".into(), json!(nodes));
    }
    if r.random_bool(0.08) {
        o.insert("is_zero".into(), json!(true));
    }
    let unknown_ctor = idx % 17 == 5;
    if idx % 17 == 11 {
        o.insert("is_unknown".into(), json!(true));
    }
    let text = if unknown_ctor { serde_json::to_string(&JsonScalar::unknown()).unwrap_or_default() } else { Value::Object(o).to_string() };
    let via = if idx % 2 == 0 { "ref" } else { "owned" };
    let head = json!({"k": "scalar_dec", "via": via, "text": ascii_text(&text), "unknown_ctor": unknown_ctor, "tags": ["api=scalar_dec"]});
    let with = |extra: Value| {
        let mut e = head.clone();
        for (k, v) in extra.as_object().unwrap() {
            e[k.as_str()] = v.clone();
        }
        e
    };
    let (doc, docval, exact_doc) = match project_scalar_ext(&text) {
        Ok(x) => x,
        Err(m) => return with(json!({"res": "unreadable", "msg": clean(&m)})),
    };
    let scale = {
        let j: Value = serde_json::from_str(&text).unwrap_or(json!({}));
        let ff = j.get("floatfactor").and_then(|f| f.as_f64()).unwrap_or(1.0).abs().max(1.0);
        let nn = j.get("phasenodes").and_then(|p| p.as_array()).map(|a| a.len()).unwrap_or(0);
        ff * 2f64.powf(doc["power2"].as_i64().unwrap_or(0) as f64 / 2.0) * 2f64.powi(nn as i32)
    };
    let js: JsonScalar = match serde_json::from_str(&text) {
        Ok(js) => js,
        Err(e) => return with(json!({"res": "decode_err", "msg": clean(&format!("{e}")), "doc": doc, "exact_doc": exact_doc})),
    };
    match guarded(|| if via == "ref" { Scalar4::try_from(&js) } else { Scalar4::try_from(js.clone()) }) {
        Err(msg) => with(json!({"res": "panic", "msg": msg, "doc": doc, "exact_doc": exact_doc})),
        Ok(Err(e)) => with(json!({"res": "decode_err", "msg": clean(&format!("{e}")), "doc": doc, "exact_doc": exact_doc})),
        Ok(Ok(s2)) => {
            let (post, big, sca) = scalar_post(&s2);
            // floating point (outside TLA+): the decoded scalar against this file's own evaluation of the fields, to
            // 1e-9 of the SCALE of the document (the product of the magnitudes of its factors: a phase node 1 + e^{i pi}
            // makes the value 0, which has no relative error)
            let close = (docval - raw_to_c(&s2)).norm() <= 1e-9 * scale;
            with(json!({"res": "ok", "doc": doc, "exact_doc": exact_doc, "post_sc": post, "sc_big": big, "post_sca": sca, "close": close}))
        }
    }
}

// ---- whole documents in the shapes of other writers

struct Feat {
    typed_h: bool,
    par: bool,
    hh: bool,
    boolio: bool,
    nocoord: bool,
}

/// sqrt2^p e^{i k pi/4} as [a,b,c,d,e] (the catalogue's class 1, with p and k kept)
fn exact_scalar(p: i32, k: usize) -> [i64; 5] {
    let (mut c, e) = if p.rem_euclid(2) == 0 { ([1i64, 0, 0, 0], p / 2) } else { ([0i64, 1, 0, -1], (p - 1) / 2) };
    for _ in 0..k {
        c = [-c[3], c[0], c[1], c[2]];
    }
    [c[0], c[1], c[2], c[3], e as i64]
}

/// the diagram `a` (decorated, scalar one) as a document: returns the text, the parallel edges added (in a's vertex
/// names) and the scalar [a,b,c,d,e] the scalar field denotes
fn write_foreign(a: &Value, r: &mut StdRng, f: &Feat) -> (String, Vec<Value>, [i64; 5], bool) {
    let vs = a["v"].as_array().unwrap();
    let mut nums: Vec<usize> = (0..3 * vs.len() + 3).collect();
    for i in (1..nums.len()).rev() {
        nums.swap(i, r.random_range(0..=i));
    }
    // a virtual-virtual edge makes the decoder invent the name "v<number of vertices>": keep clear of it
    let (np, wp) = if f.hh { ("n", "w") } else { [("n", "w"), ("v", "b"), ("v", "b")][r.random_range(0..3)] };
    let mut name = std::collections::BTreeMap::new();
    let mut ty = std::collections::BTreeMap::new();
    let mut crd = std::collections::BTreeMap::new();
    for (i, v) in vs.iter().enumerate() {
        let id = v["id"].as_u64().unwrap();
        let b = v["ty"] == "B";
        name.insert(id, format!("{}{}", if b { wp } else { np }, nums[i]));
        ty.insert(id, v["ty"].as_str().unwrap().to_string());
        crd.insert(id, (v.get("r").and_then(|x| x.as_f64()).unwrap_or(0.0), v.get("q").and_then(|x| x.as_f64()).unwrap_or(0.0)));
    }
    let ins: Vec<u64> = a["ins"].as_array().unwrap().iter().map(|x| x.as_u64().unwrap()).collect();
    let outs: Vec<u64> = a["outs"].as_array().unwrap().iter().map(|x| x.as_u64().unwrap()).collect();
    let mut wires = serde_json::Map::new();
    let mut nodes = serde_json::Map::new();
    let mut edges = serde_json::Map::new();
    let coord_ann = |c: (f64, f64)| if f.nocoord { json!({}) } else { json!({"coord": [c.0, c.1]}) };
    for v in vs {
        let id = v["id"].as_u64().unwrap();
        let mut ann = coord_ann(crd[&id]);
        if v["ty"] == "B" {
            if r.random_bool(0.7) {
                ann["boundary"] = json!(true);
            }
            let flag = |pos: Option<usize>, r: &mut StdRng| -> Option<Value> {
                match pos {
                    Some(_) if f.boolio => Some(json!(true)),
                    Some(i) => Some(json!(i)),
                    None if f.boolio && r.random_bool(0.5) => Some(json!(false)),
                    None => None,
                }
            };
            if let Some(x) = flag(ins.iter().position(|&i| i == id), r) {
                ann["input"] = x;
            }
            if let Some(x) = flag(outs.iter().position(|&i| i == id), r) {
                ann["output"] = x;
            }
            wires.insert(name[&id].clone(), json!({"annotation": ann}));
        } else {
            let t = match v["ty"].as_str().unwrap() {
                "Hbox" => "hadamard",
                x => x,
            };
            let mut data = json!({"type": t});
            let (n, d) = (v["ph"][0].as_i64().unwrap(), v["ph"][1].as_i64().unwrap());
            let dflt = if t == "hadamard" { (1, 1) } else { (0, 1) };
            if (n, d) != dflt || r.random_bool(0.3) {
                // an equivalent spelling: unreduced, shifted by a full turn, decimal where there is one
                let m = [1i64, 1, 2, 3][r.random_range(0..4)];
                let (n2, d2) = if d * m <= 256 { ((n + [0, 0, 2 * d, -2 * d][r.random_range(0..4)]) * m, d * m) } else { (n, d) };
                let sh = shape_for(n2, d2, r.random_bool(0.25), r).or_else(|| shape_for(n2, d2, false, r)).unwrap();
                data["value"] = json!(render(&sh, r));
            } else if r.random_bool(0.3) {
                data["value"] = json!("");
            }
            if t == "hadamard" && r.random_bool(0.5) {
                data["is_edge"] = json!("false");
            }
            nodes.insert(name[&id].clone(), json!({"annotation": ann, "data": data}));
        }
    }
    let mut ne = 0usize;
    let mut nh = 0usize;
    let mut edge = |edges: &mut serde_json::Map<String, Value>, s: &str, t: &str, ty: Option<&str>, r: &mut StdRng| {
        let (s, t) = if r.random_bool(0.5) { (s, t) } else { (t, s) };
        let mut e = json!({"src": s, "tgt": t});
        if let Some(x) = ty {
            e["type"] = json!(x);
        }
        edges.insert(format!("e{ne}"), e);
        ne += 1;
    };
    let mid = |x: (f64, f64), y: (f64, f64)| ((x.0 + y.0) / 2.0, (x.1 + y.1) / 2.0);
    let mut hnode = |nodes: &mut serde_json::Map<String, Value>, c: (f64, f64)| -> String {
        let nm = format!("h{nh}");
        nh += 1;
        nodes.insert(nm.clone(), json!({"annotation": {"coord": [c.0, c.1]}, "data": {"type": "hadamard", "is_edge": "true"}}));
        nm
    };
    let es = a["e"].as_array().unwrap();
    let chain_at = if f.hh && !es.is_empty() { Some(r.random_range(0..es.len())) } else { None };
    let mut all: Vec<(u64, u64, String)> = es.iter().map(|e| (e["u"].as_u64().unwrap(), e["w"].as_u64().unwrap(), e["t"].as_str().unwrap().to_string())).collect();
    // parallel edges between Z/X spiders (add_edge_smart fuses them)
    let mut par = vec![];
    if f.par {
        let zx: Vec<u64> = ty.iter().filter(|(_, t)| *t == "Z" || *t == "X").map(|(i, _)| *i).collect();
        if zx.len() >= 2 {
            for _ in 0..r.random_range(1..=2) {
                let u = zx[r.random_range(0..zx.len())];
                let w = zx[(zx.iter().position(|x| *x == u).unwrap() + r.random_range(1..zx.len())) % zx.len()];
                if u != w {
                    let t = if r.random_bool(0.5) { "N" } else { "H" };
                    par.push(json!([u, w, t]));
                    all.push((u, w, t.to_string()));
                }
            }
        }
    }
    for (i, (u, w, t)) in all.iter().enumerate() {
        let (su, sw) = (name[u].clone(), name[w].clone());
        let c = mid(crd[u], crd[w]);
        if Some(i) == chain_at {
            // plain wire = two Hadamards in a row, Hadamard wire = three
            let k = if t == "N" { 2 } else { 3 };
            let hs: Vec<String> = (0..k).map(|_| hnode(&mut nodes, c)).collect();
            edge(&mut edges, &su, &hs[0], None, r);
            for j in 0..k - 1 {
                edge(&mut edges, &hs[j], &hs[j + 1], Some("simple"), r);
            }
            edge(&mut edges, &hs[k - 1], &sw, None, r);
        } else if t == "N" {
            edge(&mut edges, &su, &sw, if r.random_bool(0.5) { Some("simple") } else { None }, r);
        } else if f.typed_h && r.random_bool(0.7) {
            edge(&mut edges, &su, &sw, Some("hadamard"), r);
        } else {
            let h = hnode(&mut nodes, c);
            edge(&mut edges, &su, &h, None, r);
            edge(&mut edges, &h, &sw, Some("simple"), r);
        }
    }
    let mut doc = json!({"wire_vertices": wires, "node_vertices": nodes, "undir_edges": edges});
    // the scalar: none with parallel edges (the decoder REPLACES what edge fusion accumulated by the scalar field, as pyzx does)
    let mut sc = [1i64, 0, 0, 0, 0];
    let mut approx_ok = false;
    if !f.par && r.random_bool(0.6) {
        let (p, k) = (r.random_range(-8..=8), r.random_range(0..8usize));
        sc = exact_scalar(p, k);
        let g = gcd(k as i64, 4).max(1);
        let sh = shape_for(k as i64 / g, 4 / g, r.random_bool(0.2), r).unwrap();
        let mut o = json!({"power2": p, "phase": render(&sh, r)});
        match r.random_range(0..3) {
            0 => {}
            1 => {
                o["floatfactor"] = json!(1.0);
            }
            _ => {
                o["phasenodes"] = json!([]);
                o["is_zero"] = json!(false);
            }
        }
        // a decimal phase goes through a float in the decoder: the result may be flagged approximate
        approx_ok = matches!(sh, Shape::Dec { .. });
        doc["scalar"] = json!(o.to_string());
    } else if r.random_bool(0.3) {
        doc["scalar"] = json!("");
    }
    if r.random_bool(0.3) {
        doc["variable_types"] = json!({});
    }
    (doc.to_string(), par, sc, approx_ok)
}

fn foreign_event<G: GraphLike>(be: &str, text: &str, pre_sc: &Scalar4, par: &[Value], hh: bool, approx_ok: bool, tags: &[String]) -> Value {
    let fail = |res: &str, msg: &str| json!({"k": "foreign", "via": "decode_graph", "be": be, "res": res, "msg": msg, "par": par, "hh": hh, "tags": tags});
    let view = match project_doc(text) {
        Ok(d) => d,
        Err(m) => return fail("unreadable", &clean(&m)),
    };
    let g2: G = match attempt(|| quizx::json::decode_graph::<G>(text).map_err(|e| format!("{e}")), "decode_err") {
        Ok(g) => g,
        Err((res, msg)) => {
            let mut e = fail(&res, &msg);
            e["doc"] = view.doc;
            return e;
        }
    };
    let mut post = abs_ext(&g2);
    post.as_object_mut().unwrap().remove("n");
    let sc_big = post["sc"].is_string();
    if sc_big {
        post["sc"] = json!([0, 0, 0, 0, 0]);
    }
    let kept = matches!((sc_exact(pre_sc), sc_exact(g2.scalar())), (Some(a), Some(b)) if a == b);
    json!({"k": "foreign", "via": "decode_graph", "be": be, "res": "ok", "doc": view.doc, "post": post, "sc_big": sc_big, "scalar_exact_kept": kept,
           "approx_ok": approx_ok, "par": par, "hh": hh, "tags": tags})
}

fn record_foreign(a0: &Value, r: &mut StdRng, idx: usize, tr: &mut Tr) -> bool {
    let nsp = a0["v"].as_array().unwrap().iter().filter(|v| v["ty"] != "B").count();
    let one_io = a0["ins"].as_array().unwrap().len() <= 1 && a0["outs"].as_array().unwrap().len() <= 1;
    let f = Feat {
        typed_h: r.random_bool(0.6),
        par: idx % 5 == 1 && nsp <= 5,
        hh: idx % 5 == 3 && nsp <= 5,
        boolio: one_io && r.random_bool(0.5),
        nocoord: r.random_bool(0.15),
    };
    // parallel / chained documents are judged by their denotation: phases stay multiples of pi/4, no H-box
    let d = Deco { other_phases: !f.par && !f.hh && r.random_bool(0.5), zero_coords: f.nocoord, hbox: !f.par && !f.hh && r.random_bool(0.12), sc: [1, 0, 0, 0, 0] };
    let mut a = decorate(a0, r, &d);
    let (text, par, sc, approx_ok) = write_foreign(&a, r, &f);
    a["sc"] = json!(sc);
    let gv: VecG = build(&a);
    let mut pre = abs_ext(&gv);
    pre.as_object_mut().unwrap().remove("n");
    let mut tags: Vec<String> = vec!["api=foreign".into()];
    for (on, t) in [(f.typed_h, "typed_h"), (!par.is_empty(), "parallel"), (f.hh, "hh"), (f.boolio, "boolio"), (f.nocoord, "nocoord")] {
        if on {
            tags.push(t.into());
        }
    }
    tr.group();
    tr.emit(json!({"k": "reset", "pre": pre}));
    let pre_sc = *gv.scalar();
    let hh = f.hh && !a["e"].as_array().unwrap().is_empty();
    let e = if idx % 2 == 0 {
        foreign_event::<VecG>("vec", &text, &pre_sc, &par, hh, approx_ok, &tags)
    } else {
        foreign_event::<HashG>("hash", &text, &pre_sc, &par, hh, approx_ok, &tags)
    };
    let ok = e["res"] == "ok";
    tr.emit(e);
    ok
}

fn record_api(n: usize, seed: u64, tr: &mut Tr) -> Value {
    let mut r = gens::rng(seed ^ 0xc13a);
    let empty = {
        let g: VecG = build(&gens::mk(&[], &[], &[], &[], [1, 0, 0, 0, 0]));
        let mut p = abs_ext(&g);
        p.as_object_mut().unwrap().remove("n");
        p
    };
    let mut evs: Vec<Value> = vec![];
    // ---- phase texts: the catalogue, then random shapes
    evs.push(phase_dec_event(&Shape::Empty, &mut r));
    for (n_, d_) in [(1i64, 1i64), (-1, 1), (3, 4), (-3, 4), (1, 4), (7, 4), (1, 2), (-1, 2), (0, 1), (5, 3), (1, 256), (255, 256), (2, 8), (9, 4), (-9, 4)] {
        for dec in [false, false, false, true] {
            if let Some(sh) = shape_for(n_, d_, dec, &mut r) {
                evs.push(phase_dec_event(&sh, &mut r));
            }
        }
    }
    for t in RAW_TEXTS {
        let (res, ret) = decode_phase(&jphase(t));
        evs.push(json!({"k": "phase_dec", "text": ascii_text(t), "sh": {"kind": "raw", "neg": false, "hasnum": false, "num": 0, "pi": false, "hasden": false,
                        "den": 1, "mant": 0, "exp10": 0}, "res": res, "ret": ret, "reader": [0, 0], "reader_ok": false, "tags": ["api=phase_dec", "raw"]}));
    }
    const DEC_DENS: [i64; 16] = [1, 2, 4, 5, 8, 10, 16, 20, 25, 32, 40, 64, 100, 128, 200, 256];
    for _ in 0..n {
        let dec = r.random_bool(0.3);
        let d = if dec { DEC_DENS[r.random_range(0..DEC_DENS.len())] } else if r.random_bool(0.5) { DENS[r.random_range(0..DENS.len())] } else if r.random_bool(0.8) { r.random_range(1..=256) } else { r.random_range(257..=3000) };
        let nn = r.random_range(-(2 * d)..=(2 * d));
        // out of scope on purpose now and then: a decimal that is not a small fraction
        let sh = if dec && r.random_bool(0.1) { Some(Shape::Dec { neg: r.random_bool(0.5), mant: r.random_range(1..99_999_999), exp10: -8, pi: false }) } else { shape_for(nn, d, dec, &mut r) };
        if let Some(sh) = sh {
            evs.push(phase_dec_event(&sh, &mut r));
        }
    }
    // ---- from_phase with caller-chosen options
    for i in 0..n {
        let d = if i % 3 == 0 { DENS[r.random_range(0..DENS.len())] } else if r.random_bool(0.8) { r.random_range(1..=256) } else { r.random_range(257..=2000) };
        let nn = r.random_range(-(2 * d)..=(2 * d));
        evs.push(phase_enc_event(nn, d, &mut r));
    }
    // ---- scalars
    for i in 0..(n / 4).max(8) {
        let class = [0usize, 1, 1, 2, 2, 3, 4, 1][i % 8];
        evs.extend(scalar_conv_events(catalogue_scalar(&mut r, class)));
    }
    for i in 0..n {
        evs.push(scalar_dec_event(&mut r, i));
    }
    let nev = evs.len();
    let mut by_kind = std::collections::BTreeMap::new();
    for (i, e) in evs.into_iter().enumerate() {
        if i % 25 == 0 {
            tr.group();
            tr.emit(json!({"k": "reset", "pre": empty}));
        }
        *by_kind.entry(e["k"].as_str().unwrap().to_string()).or_insert(0usize) += 1;
        tr.emit(e);
    }
    // ---- whole documents
    let nf = (n / 2).max(20);
    let cfg = RandCfg { min_sp: 0, max_sp: 6, max_b: 3, pedge: 0.4, scalars: false, ..RandCfg::any_zx() };
    let mut ok = 0usize;
    let named = named();
    for i in 0..nf {
        // parallel edges need two spiders, a chain needs an edge
        let cfg_i = if i % 5 == 1 || i % 5 == 3 { RandCfg { min_sp: 2, max_sp: 5, pedge: 0.6, ..cfg.clone() } } else { cfg.clone() };
        let a = if i % 9 == 8 { named[(i / 9) % named.len()].clone() } else { gens::random_diagram(&mut r, &cfg_i) };
        ok += record_foreign(&a, &mut r, i, tr) as usize;
    }
    json!({"api_events": nev, "by_kind": by_kind, "foreign_docs": nf, "foreign_decoded": ok})
}

pub fn record(args: &[String], seed: u64, tr: &mut Tr) -> Value {
    let out = arg_val(args, "--out").unwrap_or_else(|| "json".into());
    let dir = arg_val(args, "--dir").unwrap_or(format!("{out}_files"));
    std::fs::create_dir_all(&dir).expect("create --dir");
    let mut cx = Ctx { dir, count: 0, events: 0, failures: 0, max_ppb_exact: 0, max_ppb_inexact: 0 };
    let mut r = gens::rng(seed ^ 0xc13);
    let stride: usize = arg_num(args, "--stride", 1);
    let offset: usize = seed as usize % stride.max(1);
    let (mut nfam, mut nrand, mut nbig, mut nnamed) = (0usize, 0usize, 0usize, 0usize);

    if arg_flag(args, "--named") {
        // every named diagram x every scalar class, several draws
        for a in named() {
            for class in [0usize, 1, 1, 2, 2, 2, 3, 4] {
                let sc = catalogue_scalar(&mut r, class);
                let d = Deco { other_phases: false, zero_coords: class == 0, hbox: false, sc };
                record_diagram(&decorate(&a, &mut r, &d), &[], &mut cx, tr);
                nnamed += 1;
            }
        }
        // every generic value of the catalogue on the one-spider diagram, unscaled and scaled
        for g in GENERIC {
            for e in [0i64, -10, 7] {
                let d = Deco { other_phases: false, zero_coords: true, hbox: false, sc: [g[0], g[1], g[2], g[3], e] };
                record_diagram(&decorate(&named()[1], &mut r, &d), &[], &mut cx, tr);
                nnamed += 1;
            }
        }
    }
    for fam in args.iter().enumerate().filter(|(_, a)| *a == "--fam").map(|(i, _)| args[i + 1].clone()) {
        let f = parse_family(&fam);
        let mut idx = 0usize;
        gens::enum_family(&f, |a| {
            if idx % stride == offset {
                // family members keep their pi/4 phases two times out of three (denotation checked)
                let class = [0usize, 1, 2, 1, 3, 2, 1, 4][nfam % 8];
                let d = Deco { other_phases: nfam % 3 == 2, zero_coords: nfam % 7 == 3, hbox: false, sc: catalogue_scalar(&mut r, class) };
                record_diagram(&decorate(&a, &mut r, &d), &[], &mut cx, tr);
                nfam += 1;
            }
            idx += 1;
        });
    }
    let n: usize = arg_num(args, "--random", 0);
    if n > 0 {
        let cfg = parse_rand(&arg_val(args, "--rand").unwrap_or_default());
        for _ in 0..n {
            let a = gens::random_diagram(&mut r, &cfg);
            // independent draws: no correlation between the phase, coordinate, H-box and scalar decorations
            let class = [1usize, 2, 0, 3, 1, 2, 4, 2][r.random_range(0..8)];
            let d = Deco { other_phases: r.random_bool(0.5), zero_coords: r.random_bool(0.12), hbox: r.random_bool(0.17), sc: catalogue_scalar(&mut r, class) };
            record_diagram(&decorate(&a, &mut r, &d), &[], &mut cx, tr);
            nrand += 1;
        }
    }
    let n: usize = arg_num(args, "--big", 0);
    if n > 0 {
        let cfg = RandCfg { min_sp: 9, max_sp: 16, max_b: 5, pedge: 0.22, scalars: false, ..RandCfg::any_zx() };
        for _ in 0..n {
            let a = gens::random_diagram(&mut r, &cfg);
            let class = [1usize, 2, 0, 3][r.random_range(0..4)];
            let d = Deco { other_phases: r.random_bool(0.5), zero_coords: r.random_bool(0.2), hbox: r.random_bool(0.25), sc: catalogue_scalar(&mut r, class) };
            record_diagram(&decorate(&a, &mut r, &d), &["big"], &mut cx, tr);
            nbig += 1;
        }
    }
    let napi: usize = arg_num(args, "--api", 0);
    let api = if napi > 0 { record_api(napi, seed, tr) } else { json!({}) };
    let _ = std::fs::remove_dir(&cx.dir);
    json!({"api": api, "diagrams": cx.count, "family": nfam, "random": nrand, "big": nbig, "named": nnamed, "roundtrips": cx.events,
           "not_ok": cx.failures, "max_relerr_ppb_exact_class": cx.max_ppb_exact, "max_relerr_ppb_other": cx.max_ppb_inexact})
}
