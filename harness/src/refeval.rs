//! A deliberately naive FLOAT reference evaluator for diagrams and circuits whose phases are ARBITRARY rationals
//! (the clause "otherwise it holds to floating-point tolerance" of C01 / C02 / C03 / C04 / C08).
//!
//! The specification's `Den` / `CircSem` live in the exact ring Z[omega][1/2] and therefore only speak about phases
//! k*pi/4.  Floating point cannot be decided inside TLC; the accepted pattern (C13 ScalarClose, C08 FloatTensorOK) is:
//! the harness computes a tolerance comparison and logs a BOOLEAN, TLC judges the boolean.  This file is the oracle
//! behind those booleans.  It is written from the textbook definitions that spec/ZXSem.tla (`DenB`) and
//! spec/Circuit.tla (`GateSem`) state, it shares no code with quizx/src/tensor.rs, and it is itself a CHECKED
//! artefact: on every pi/4 input of the tensor engine's `--ref` traces the tensor computed here is logged (fixed point,
//! 20 fractional bits) and mc/Trace_Tensor.tla (`RefEvalOK`) compares it entry by entry, in exact integer arithmetic,
//! with the tensor TLC computes from the specification.  A bug in this file shows up there.
//!
//!   ref_den(a)   diagram in the `abs` shape (harness/src/absg.rs); phase [n,d] = n/d * pi.  The scalar is `sc` =
//!                [a,b,c,d,e] = (a + b w + c w^2 + d w^3) 2^e, or - when the optional field `scf` = [re, im] (floats,
//!                NEVER written to a trace) is present - that complex number (float-approximate Scalar4 values have
//!                64-bit mantissas and no small-integer form); an optional field `scph` = [n,d] of a generic-phase INPUT multiplies
//!                `sc` by e^{i pi n/d} (the stored scalar of the input is then float-approximate, see `build_f`).
//!                T[b] = sc * (1/sqrt2)^{#effH} * SUM_{x extends b} PROD_v e^{i pi ph_v x_v} * PROD_{effH {u,v}} (-1)^{x_u x_v}
//!                over all 0/1 assignments x of the vertices that are constant along effective-N edges; an edge is
//!                effectively Hadamard iff (t = H) xor IsX(u) xor IsX(w); index order inputs first, then outputs,
//!                first index most significant.  Boolean variables are ignored (only variable-free diagrams).
//!   ref_circ(c)  circuit in the `circ_json` shape, unitary gates only; T[in, out] = <out| U |in>, qubit 0 most
//!                significant, gate matrices exactly those of spec/Circuit.tla.
//!   close        same length and max |x_i - y_i| <= tol * max(1, max |x_i|, max |y_i|)
//!   proj_close   proportional with a non-zero factor (both tensors non-zero)

use num::complex::Complex;
use quizx::scalar::Scalar4;
use serde_json::{json, Value};
use std::f64::consts::{FRAC_1_SQRT_2, PI};

pub type C = Complex<f64>;

fn angle(ph: &Value) -> f64 {
    PI * ph[0].as_i64().unwrap() as f64 / ph[1].as_i64().unwrap() as f64
}

fn cis(t: f64) -> C {
    C::new(t.cos(), t.sin())
}

/// the stored scalar of an abstract diagram: `scf` (float) if present, else `sc`, times e^{i pi n/d} for an optional `scph` = [n,d]
fn scalar_of(a: &Value) -> C {
    if let Some(f) = a.get("scf") {
        return C::new(f[0].as_f64().unwrap(), f[1].as_f64().unwrap());
    }
    let s = a["sc"].as_array().expect("scalar neither small-integer nor float (scf missing)");
    let x: Vec<f64> = s.iter().map(|v| v.as_i64().unwrap() as f64).collect();
    // w = (1 + i)/sqrt2, w^2 = i, w^3 = (-1 + i)/sqrt2
    let z = C::new(x[0] + (x[1] - x[3]) * FRAC_1_SQRT_2, x[2] + (x[1] + x[3]) * FRAC_1_SQRT_2) * 2f64.powi(x[4] as i32);
    match a.get("scph") {
        Some(p) => z * cis(angle(p)),
        None => z,
    }
}

/// `absg::build`, and - for a generic-phase input whose scalar carries a generic phase factor (`scph` = [n,d]) - the stored
/// scalar multiplied by e^{i pi n/d} the way a user of the library gets such a scalar (it is float-approximate from then on)
pub fn build_f<G: quizx::graph::GraphLike>(a: &Value) -> G {
    use quizx::scalar::FromPhase;
    let mut g: G = crate::absg::build(a);
    if let Some(p) = a.get("scph") {
        let ph = quizx::phase::Phase::new(num::Rational64::new(p[0].as_i64().unwrap(), p[1].as_i64().unwrap()));
        *g.scalar_mut() *= Scalar4::from_phase(ph);
    }
    g
}

/// The complex value of a Scalar4 from its RAW parts (sign, 64-bit mantissa, exponent of each of the four dyadic
/// coefficients; hook H1) - not through the library's own conversion, which is code under test (C07).
pub fn sc_c64(s: &Scalar4) -> C {
    let v: Vec<f64> = s
        .verif_coeffs()
        .iter()
        .map(|d| {
            let (neg, m, e, _) = d.verif_raw();
            let x = m as f64 * 2f64.powi(e);
            if neg {
                -x
            } else {
                x
            }
        })
        .collect();
    C::new(v[0] + (v[1] - v[3]) * FRAC_1_SQRT_2, v[2] + (v[1] + v[3]) * FRAC_1_SQRT_2)
}

/// `abs(g)` plus the float value of the scalar (for the evaluator only; never emitted)
pub fn abs_f(g: &impl quizx::graph::GraphLike) -> Value {
    let mut a = crate::absg::abs(g);
    let z = sc_c64(g.scalar());
    a["scf"] = json!([z.re, z.im]);
    a
}

struct Dg {
    theta: Vec<f64>,
    /// per vertex (in evaluation order): edges to EARLIER vertices as (earlier index, effectively Hadamard)
    back: Vec<Vec<(usize, bool)>>,
    /// per vertex: Some(bit position in the flat index) for listed boundaries
    bpos: Vec<Option<usize>>,
    /// self-loops: (vertex, effectively Hadamard) - never produced by quizx, handled for completeness
    loops: Vec<(usize, bool)>,
}

fn dfs(d: &Dg, i: usize, x: &mut Vec<u8>, amp: C, idx: usize, out: &mut [C]) {
    if i == d.theta.len() {
        out[idx] += amp;
        return;
    }
    'bit: for bit in 0..2u8 {
        let mut f = amp;
        for &(j, h) in &d.back[i] {
            if h {
                if x[j] == 1 && bit == 1 {
                    f = -f;
                }
            } else if x[j] != bit {
                continue 'bit;
            }
        }
        if bit == 1 {
            f *= cis(d.theta[i]);
            for &(v, h) in &d.loops {
                if v == i && h {
                    f = -f;
                }
            }
        }
        x[i] = bit;
        let idx2 = match d.bpos[i] {
            Some(p) if bit == 1 => idx | (1usize << p),
            _ => idx,
        };
        dfs(d, i + 1, x, f, idx2, out);
    }
}


/// number of free summation bits: classes of vertices under effective-N edges (what the sum really ranges over)
pub fn den_bits(a: &Value) -> usize {
    let vs = a["v"].as_array().unwrap();
    let ids: Vec<u64> = vs.iter().map(|v| v["id"].as_u64().unwrap()).collect();
    let isx: Vec<bool> = vs.iter().map(|v| v["ty"] == "X").collect();
    let pos = |id: u64| ids.iter().position(|y| *y == id).unwrap();
    let mut rep: Vec<usize> = (0..ids.len()).collect();
    fn find(rep: &mut Vec<usize>, i: usize) -> usize {
        let mut r = i;
        while rep[r] != r {
            r = rep[r];
        }
        rep[i] = r;
        r
    }
    for e in a["e"].as_array().unwrap() {
        let (u, w) = (pos(e["u"].as_u64().unwrap()), pos(e["w"].as_u64().unwrap()));
        let h = (e["t"] == "H") ^ isx[u] ^ isx[w];
        if !h {
            let (ru, rw) = (find(&mut rep, u), find(&mut rep, w));
            rep[ru] = rw;
        }
    }
    (0..ids.len()).filter(|&i| find(&mut rep, i) == i).count()
}

pub fn ref_den(a: &Value) -> Vec<C> {
    let vs = a["v"].as_array().unwrap();
    let ins: Vec<u64> = a["ins"].as_array().unwrap().iter().map(|x| x.as_u64().unwrap()).collect();
    let outs: Vec<u64> = a["outs"].as_array().unwrap().iter().map(|x| x.as_u64().unwrap()).collect();
    let bnd: Vec<u64> = ins.iter().chain(outs.iter()).copied().collect();
    let nb = bnd.len();
    // evaluation order: the listed boundaries (index order), then everything else by name
    let mut order: Vec<u64> = bnd.clone();
    for v in vs {
        let id = v["id"].as_u64().unwrap();
        if !order.contains(&id) {
            order.push(id);
        }
    }
    let rec = |id: u64| vs.iter().find(|v| v["id"].as_u64().unwrap() == id).unwrap_or_else(|| panic!("vertex {id} listed but absent"));
    let pos = |id: u64| order.iter().position(|y| *y == id).unwrap();
    let isx: Vec<bool> = order.iter().map(|&id| rec(id)["ty"] == "X").collect();
    let mut d = Dg { theta: vec![], back: vec![vec![]; order.len()], bpos: vec![None; order.len()], loops: vec![] };
    for &id in &order {
        let v = rec(id);
        let ty = v["ty"].as_str().unwrap();
        assert!(ty == "B" || ty == "Z" || ty == "X", "reference evaluator: vertex type {ty}");
        d.theta.push(angle(&v["ph"]));
    }
    for (p, _) in bnd.iter().enumerate() {
        // first index most significant; a vertex listed twice keeps its first position (ill-formed, never generated)
        if d.bpos[p].is_none() {
            d.bpos[p] = Some(nb - 1 - p);
        }
    }
    let mut nh = 0i32;
    for e in a["e"].as_array().unwrap() {
        let (u, w) = (pos(e["u"].as_u64().unwrap()), pos(e["w"].as_u64().unwrap()));
        let h = (e["t"] == "H") ^ isx[u] ^ isx[w];
        if h {
            nh += 1;
        }
        if u == w {
            d.loops.push((u, h));
        } else {
            let (lo, hi) = (u.min(w), u.max(w));
            d.back[hi].push((lo, h));
        }
    }
    let mut out = vec![C::new(0.0, 0.0); 1usize << nb];
    let mut x = vec![0u8; order.len()];
    dfs(&d, 0, &mut x, C::new(1.0, 0.0), 0, &mut out);
    let pre = scalar_of(a) * FRAC_1_SQRT_2.powi(nh);
    out.iter().map(|z| z * pre).collect()
}

// ---------------------------------------------------------------------------------------------
// circuits
// ---------------------------------------------------------------------------------------------

type M2 = [[C; 2]; 2]; // m[y][x] = <y| U |x>

fn m_zphase(t: f64) -> M2 {
    let (o, z) = (C::new(1.0, 0.0), C::new(0.0, 0.0));
    [[o, z], [z, cis(t)]]
}
fn m_had() -> M2 {
    let r = C::new(FRAC_1_SQRT_2, 0.0);
    [[r, r], [r, -r]]
}
/// H Z(t) H = 1/2 [[1+e, 1-e], [1-e, 1+e]]
fn m_xphase(t: f64) -> M2 {
    let e = cis(t);
    let p = (C::new(1.0, 0.0) + e) * 0.5;
    let m = (C::new(1.0, 0.0) - e) * 0.5;
    [[p, m], [m, p]]
}

/// bit of qubit q in a basis-state index (qubit 0 most significant)
fn qbit(i: usize, n: usize, q: usize) -> usize {
    (i >> (n - 1 - q)) & 1
}
fn qmask(n: usize, q: usize) -> usize {
    1usize << (n - 1 - q)
}

fn app1(psi: &mut [C], n: usize, q: usize, m: &M2) {
    let mk = qmask(n, q);
    for i in 0..psi.len() {
        if i & mk == 0 {
            let (a, b) = (psi[i], psi[i | mk]);
            psi[i] = m[0][0] * a + m[0][1] * b;
            psi[i | mk] = m[1][0] * a + m[1][1] * b;
        }
    }
}

fn app_diag(psi: &mut [C], f: impl Fn(usize) -> C) {
    for (i, z) in psi.iter_mut().enumerate() {
        *z *= f(i);
    }
}

/// new[i] = old[pre(i)] for an involution `pre` on basis states
fn app_perm(psi: &mut Vec<C>, pre: impl Fn(usize) -> usize) {
    let old = psi.clone();
    for i in 0..old.len() {
        psi[i] = old[pre(i)];
    }
}

fn gate_on(psi: &mut Vec<C>, n: usize, g: &Value) {
    let t = g["t"].as_str().unwrap();
    let qs: Vec<usize> = g["qs"].as_array().unwrap().iter().map(|x| x.as_u64().unwrap() as usize).collect();
    let th = angle(&g["ph"]);
    let minus = |b: bool| if b { C::new(-1.0, 0.0) } else { C::new(1.0, 0.0) };
    match t {
        "ZPhase" => app1(psi, n, qs[0], &m_zphase(th)),
        "Z" => app1(psi, n, qs[0], &m_zphase(PI)),
        "S" => app1(psi, n, qs[0], &m_zphase(PI / 2.0)),
        "Sdg" => app1(psi, n, qs[0], &m_zphase(-PI / 2.0)),
        "T" => app1(psi, n, qs[0], &m_zphase(PI / 4.0)),
        "Tdg" => app1(psi, n, qs[0], &m_zphase(-PI / 4.0)),
        "XPhase" => app1(psi, n, qs[0], &m_xphase(th)),
        "NOT" => app1(psi, n, qs[0], &m_xphase(PI)),
        "HAD" => app1(psi, n, qs[0], &m_had()),
        "CZ" => app_diag(psi, |i| minus(qbit(i, n, qs[0]) & qbit(i, n, qs[1]) == 1)),
        "CCZ" => app_diag(psi, |i| minus(qbit(i, n, qs[0]) & qbit(i, n, qs[1]) & qbit(i, n, qs[2]) == 1)),
        "ParityPhase" => {
            if !qs.is_empty() {
                let e = cis(th);
                app_diag(psi, |i| if qs.iter().map(|&q| qbit(i, n, q)).sum::<usize>() % 2 == 1 { e } else { C::new(1.0, 0.0) })
            }
        }
        // control qs[0], target qs[1]
        "CNOT" => app_perm(psi, |i| if qbit(i, n, qs[0]) == 1 { i ^ qmask(n, qs[1]) } else { i }),
        "TOFF" => app_perm(psi, |i| if qbit(i, n, qs[0]) & qbit(i, n, qs[1]) == 1 { i ^ qmask(n, qs[2]) } else { i }),
        "SWAP" => app_perm(psi, |i| if qbit(i, n, qs[0]) != qbit(i, n, qs[1]) { i ^ qmask(n, qs[0]) ^ qmask(n, qs[1]) } else { i }),
        // (H x H) CZ (H x H)
        "XCX" => {
            app1(psi, n, qs[0], &m_had());
            app1(psi, n, qs[1], &m_had());
            app_diag(psi, |i| minus(qbit(i, n, qs[0]) & qbit(i, n, qs[1]) == 1));
            app1(psi, n, qs[0], &m_had());
            app1(psi, n, qs[1], &m_had());
        }
        _ => panic!("reference circuit evaluator: gate {t} is not unitary / not supported"),
    }
}

pub fn is_unitary_kind(t: &str) -> bool {
    matches!(t, "ZPhase" | "Z" | "S" | "Sdg" | "T" | "Tdg" | "XPhase" | "NOT" | "HAD" | "CZ" | "CCZ" | "ParityPhase" | "CNOT" | "TOFF" | "SWAP" | "XCX")
}

pub fn ref_circ(cj: &Value) -> Vec<C> {
    let n = cj["n"].as_u64().unwrap() as usize;
    let dim = 1usize << n;
    let mut out = vec![C::new(0.0, 0.0); dim * dim];
    for inp in 0..dim {
        let mut psi = vec![C::new(0.0, 0.0); dim];
        psi[inp] = C::new(1.0, 0.0);
        for g in cj["gates"].as_array().unwrap() {
            gate_on(&mut psi, n, g);
        }
        // index = input bits (most significant), then output bits
        out[inp * dim..(inp + 1) * dim].copy_from_slice(&psi);
    }
    out
}

// ---------------------------------------------------------------------------------------------
// comparisons
// ---------------------------------------------------------------------------------------------

fn maxabs(x: &[C]) -> f64 {
    x.iter().map(|z| z.norm()).fold(0.0, f64::max)
}

pub fn close(x: &[C], y: &[C], tol: f64) -> bool {
    if x.len() != y.len() {
        return false;
    }
    let m = 1f64.max(maxabs(x)).max(maxabs(y));
    // NaN compares false
    x.iter().zip(y.iter()).all(|(a, b)| (a - b).norm() <= tol * m)
}

/// x = z * y for some z != 0 (to tolerance); both tensors must be non-zero
pub fn proj_close(x: &[C], y: &[C], tol: f64) -> bool {
    if x.len() != y.len() || x.is_empty() {
        return false;
    }
    let (mx, my) = (maxabs(x), maxabs(y));
    if !(mx > 1e-6 && my > 1e-6) {
        return false;
    }
    let k = (0..y.len()).max_by(|&i, &j| y[i].norm().partial_cmp(&y[j].norm()).unwrap_or(std::cmp::Ordering::Equal)).unwrap();
    let z = x[k] / y[k];
    if !(z.norm() > 1e-6) {
        return false;
    }
    let zy: Vec<C> = y.iter().map(|v| v * z).collect();
    close(x, &zy, tol)
}

/// the tensor of `t` (n inputs, n outputs) preceded by the wire permutation p: input wire i is fed into input p[i] of t
pub fn permute_inputs(t: &[C], n: usize, p: &[usize]) -> Vec<C> {
    let dim = 1usize << n;
    let mut out = vec![C::new(0.0, 0.0); t.len()];
    for inp in 0..dim {
        let mut c = 0usize;
        for i in 0..n {
            if qbit(inp, n, i) == 1 {
                c |= qmask(n, p[i]);
            }
        }
        out[inp * dim..(inp + 1) * dim].copy_from_slice(&t[c * dim..(c + 1) * dim]);
    }
    out
}

pub fn permutations(n: usize) -> Vec<Vec<usize>> {
    fn rec(cur: &mut Vec<usize>, n: usize, out: &mut Vec<Vec<usize>>) {
        if cur.len() == n {
            out.push(cur.clone());
            return;
        }
        for i in 0..n {
            if !cur.contains(&i) {
                cur.push(i);
                rec(cur, n, out);
                cur.pop();
            }
        }
    }
    let mut out = vec![];
    rec(&mut vec![], n, &mut out);
    out
}

/// proportional after SOME permutation of the input wires
pub fn proj_close_up_to_perm(x: &[C], y: &[C], n: usize, tol: f64) -> bool {
    permutations(n).iter().any(|p| proj_close(&permute_inputs(x, n, p), y, tol))
}

// ---------------------------------------------------------------------------------------------
// the TLC-safe encoding of a reference tensor: per entry [round(re * 2^20), round(im * 2^20)]
// ---------------------------------------------------------------------------------------------

pub const REF_MAX_RANK: usize = 8;
/// bound on the work of `ref_den`: at most 2^MAX_BITS terms (free bits = classes of vertices joined by plain wires, `den_bits`)
pub const MAX_BITS: usize = 24;

/// None when an entry does not fit (|x| < 2^31 required) or is not finite
pub fn ref_json(t: &[C]) -> Option<Value> {
    let mut out = vec![];
    for z in t {
        let (r, i) = ((z.re * 1048576.0).round(), (z.im * 1048576.0).round());
        if !(r.is_finite() && i.is_finite() && r.abs() < 2147483000.0 && i.abs() < 2147483000.0) {
            return None;
        }
        out.push(json!([r as i64, i as i64]));
    }
    Some(Value::Array(out))
}
