#!/usr/bin/env python3
"""Binding self-test: is a trace specification really constrained by what the code logged?

usage: bin/selftest.py [-n K] [-o out.json] <ID> [<ID> ...]

For every trace of the property's last run (work/<ID>/tr_<name>.*.ndjson, registered in tr_<name>.spec.json)
take the head of one recorded shard (complete executions, ~250 lines), validate it unchanged (baseline), then K times:
corrupt ONE leaf of ONE recorded event that reports what the code did (a number +1, a boolean flipped, an edge / vertex
type or a result word swapped) and validate again.  A corruption counts as REJECTED when the trace specification reports more
violations or more drift than the baseline, or refuses the file.  The table (per trace spec: rejected / tried, and the
fields whose corruption went unnoticed) goes to stdout and to -o.  This never touches evidence/ and is not a registered check."""
import json, os, random, sys, copy, shutil
sys.path.insert(0, os.path.dirname(os.path.abspath(__file__)))
from vlib import *

HEADERS = ("reset", "pair", "circ", "begin", "xbegin")
SKIP_KEYS = {"sca", "k", "msg", "how", "be", "name", "simp", "mode", "via", "fn", "rule", "op", "method", "seed", "id", "tags", "kind"}
SWAP = {"N": "H", "H": "N", "Z": "X", "X": "Z", "ok": "panic", "true": "false", "false": "true", "HAD": "ZPhase", "CNOT": "CZ", "CZ": "CNOT"}


def neutral(parent, idx):
    """corruptions that do not change what the event says: the denominator of a zero phase [0, d], the exponent of a zero
    ring element [0, 0, 0, 0, e]"""
    if isinstance(parent, list) and all(isinstance(v, int) and not isinstance(v, bool) for v in parent):
        if len(parent) == 2 and idx == 1 and parent[0] == 0:
            return True
        if len(parent) == 5 and idx == 4 and not any(parent[:4]):
            return True
    return False


def leaves(x, path=()):
    if isinstance(x, list):
        for i, v in enumerate(x):
            if not neutral(x, i):
                yield from leaves(v, path + (i,))
        return
    if isinstance(x, dict):
        for k, v in x.items():
            if k in SKIP_KEYS and (not path or k == "sca"):
                continue
            yield from leaves(v, path + (k,))
    elif isinstance(x, list):
        for i, v in enumerate(x):
            yield from leaves(v, path + (i,))
    elif isinstance(x, bool) or isinstance(x, int) or (isinstance(x, str) and x in SWAP):
        yield path, x


def setpath(x, path, val):
    for p in path[:-1]:
        x = x[p]
    x[path[-1]] = val


def head_of(shard, maxlines):
    lines = open(shard).read().splitlines()
    out = []
    for i, l in enumerate(lines):
        if i >= maxlines and json.loads(l).get("k") in HEADERS[:4]:
            break
        out.append(l)
    return out


def score(res):
    return len(res["viol"]), len(res["drift"])


def main():
    args = sys.argv[1:]
    K, outp = 8, None
    if "-n" in args:
        K = int(args[args.index("-n") + 1]); del args[args.index("-n"):args.index("-n") + 2]
    if "-o" in args:
        outp = args[args.index("-o") + 1]; del args[args.index("-o"):args.index("-o") + 2]
    table = []
    for prop in args:
        for reg in sorted(glob.glob(os.path.join(WORK, prop, "tr_*.spec.json"))):
            spec = json.load(open(reg))
            shards = sorted(glob.glob(spec["prefix"] + ".*.ndjson"), key=lambda s: -os.path.getsize(s))
            if not shards:
                continue
            lines = head_of(shards[0], 250)
            d = os.path.join(WORK, "selftest", prop)
            os.makedirs(d, exist_ok=True)
            name = os.path.basename(reg)[3:-10]
            base_f = os.path.join(d, f"{name}.base.ndjson")
            open(base_f, "w").write("\n".join(lines) + "\n")
            try:
                base = score(validate_shard("selftest", spec["module"], spec["cfg"], base_f, 1800, f"{prop}_{name}_b"))
            except ToolError as e:
                table.append({"property": prop, "trace": name, "error": f"baseline refused: {e}"})
                continue
            rng = random.Random(12345)
            cand = [i for i, l in enumerate(lines) if json.loads(l).get("k") not in HEADERS]
            tried = rejected = 0
            missed = []
            how = {"more_violations": 0, "more_drift": 0, "refused": 0}
            for t in range(K * 4):
                if tried >= K or not cand:
                    break
                i = rng.choice(cand)
                ev = json.loads(lines[i])
                lv = list(leaves(ev))
                if not lv:
                    continue
                path, val = rng.choice(lv)
                new = (not val) if isinstance(val, bool) else (val + 1) if isinstance(val, int) else SWAP[val]
                ev2 = copy.deepcopy(ev)
                setpath(ev2, path, new)
                cl = list(lines)
                cl[i] = json.dumps(ev2)
                f = os.path.join(d, f"{name}.c{tried}.ndjson")
                open(f, "w").write("\n".join(cl) + "\n")
                tried += 1
                try:
                    sc = score(validate_shard("selftest", spec["module"], spec["cfg"], f, 1800, f"{prop}_{name}_{tried}"))
                    if sc[0] > base[0]:
                        rejected += 1; how["more_violations"] += 1
                    elif sc[1] > base[1]:
                        rejected += 1; how["more_drift"] += 1
                    else:
                        missed.append({"line": i + 1, "event": ev.get("k"), "path": "/".join(map(str, path)), "from": val, "to": new})
                except ToolError:
                    rejected += 1; how["refused"] += 1
                os.remove(f)
            row = {"property": prop, "trace": name, "trace_spec": spec["module"], "baseline": {"viol": base[0], "drift": base[1]},
                   "corruptions_tried": tried, "rejected": rejected, "how": how, "unnoticed": missed}
            table.append(row)
            print(json.dumps(row), flush=True)
    if outp:
        json.dump(table, open(outp, "w"), indent=1)
    shutil.rmtree(os.path.join(WORK, "selftest", "md"), ignore_errors=True)


if __name__ == "__main__":
    main()
