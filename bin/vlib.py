"""check <ID> <quick|thorough>      run the checks of one property against /repo's working tree
   check <ID> --replay <path>       re-execute one violation file against the current tree
   check setup                      build the harness, parse every TLA+ module

Exit 0: property held on everything explored (KNOWN-FINDING lines are informational).
Exit 1: at least one line `VIOLATION property=<ID> replay=<path>` was printed.
Exit 2: tool error / time-out / vacuity (never a verdict).
Per-property plans live in bin/plans.py; this file is the generic machinery:
  MC     exhaustive TLC run of a config in /verif/mc (the specification itself)
  TRACE  qxv record <engine> ... | TLC trace spec on every shard in parallel (the binding)
"""
import json, os, re, subprocess, sys, time, glob, shutil, concurrent.futures, hashlib

VERIF = os.path.dirname(os.path.dirname(os.path.abspath(__file__)))
# VERIF_HARNESS_DIR: alternative copy of the harness crate (whose Cargo.toml points at a scratch worktree of
# /repo) for mutation experiments that must not touch /repo itself; registered commands never set it
HARNESS = os.environ.get("VERIF_HARNESS_DIR") or os.path.join(VERIF, "harness")
QXV = os.path.join(HARNESS, "target", "debug", "qxv")
QUIZX_BIN = os.path.join(HARNESS, "target", "debug", "quizx")
MC = os.path.join(VERIF, "mc")
SPEC = os.path.join(VERIF, "spec")
WORK = os.path.join(VERIF, "work") if not os.environ.get("VERIF_HARNESS_DIR") else os.path.join(VERIF, "work", "mut_" + os.path.basename(os.environ["VERIF_HARNESS_DIR"]))
# VERIF_PAR caps the number of TLC workers / parallel shard validations (shared machine); registered commands never set it
NCPU = int(os.environ.get("VERIF_PAR") or os.cpu_count() or 4)


class ToolError(Exception):
    pass


class CodeCrash(Exception):
    """the recorder process was killed by a fatal signal raised inside the code under test"""
    def __init__(self, engine, rc, stderr, args):
        super().__init__(f"recorder {engine} died with exit status {rc}")
        self.engine, self.rc, self.stderr, self.rec_args = engine, rc, stderr, args


def log(*a):
    print(*a, flush=True)


def build_harness():
    """Rebuild qxv (and with it /repo/quizx with the guard cfg) from the current working tree."""
    t0 = time.time()
    lock = os.path.join(HARNESS, "Cargo.lock")
    if not os.path.exists(lock):
        shutil.copy("/repo/Cargo.lock", lock)
    env = dict(os.environ, CARGO_NET_OFFLINE="true")
    p = subprocess.run(["cargo", "build", "--offline", "--bins"], cwd=HARNESS, env=env,
                       stdout=subprocess.PIPE, stderr=subprocess.STDOUT, text=True)
    if p.returncode != 0:
        log(p.stdout[-4000:])
        raise ToolError("harness build failed (does /repo still compile?)")
    # the command-line binary of the repository itself, same tree, same cfg
    p = subprocess.run(["cargo", "build", "--offline", "-p", "quizx", "--bin", "quizx"], cwd=HARNESS, env=env,
                       stdout=subprocess.PIPE, stderr=subprocess.STDOUT, text=True)
    if p.returncode != 0:
        log(p.stdout[-4000:])
        raise ToolError("quizx binary build failed")
    return time.time() - t0


def java_opts(extra=""):
    return f"-DTLA-Library={SPEC} -Xss512m {extra}".strip()


TLC_NOISE = re.compile(r"^(Parsing|Semantic|Linting|Picked up|$)")


def run_tlc(module, cfg, workers, timeout, metadir, env_extra=None, jopts="", extra_args=()):
    os.makedirs(metadir, exist_ok=True)
    env = dict(os.environ)
    env["JAVA_TOOL_OPTIONS"] = java_opts(jopts)
    if env_extra:
        env.update(env_extra)
    # -checkpoint 0: TLC checkpoints every 30 minutes by default and the StateDeque queue of the trace runs cannot (it aborts the run)
    cmd = ["timeout", str(timeout), "tlc", "-workers", str(workers), "-metadir", metadir, "-cleanup", "-checkpoint", "0",
           "-noGenerateSpecTE", "-config", cfg, *extra_args, module]
    t0 = time.time()
    p = subprocess.run(cmd, cwd=MC, env=env, stdout=subprocess.PIPE, stderr=subprocess.STDOUT, text=True)
    out = "\n".join(x for x in p.stdout.splitlines() if not TLC_NOISE.match(x))
    shutil.rmtree(metadir, ignore_errors=True)
    return p.returncode, out, time.time() - t0


def parse_mc(out):
    m = re.search(r"(\d+) states generated, (\d+) distinct states found, (\d+) states left", out)
    gen, dist, left = (int(m.group(1)), int(m.group(2)), int(m.group(3))) if m else (0, 0, -1)
    m = re.search(r"depth of the complete state graph search is (\d+)", out)
    depth = int(m.group(1)) if m else 0
    return gen, dist, left, depth


def run_mc(prop, name, module, cfg, workers, timeout, coverage_actions=()):
    """Exhaustive check of the specification itself. Returns dict; raises ToolError on time-out."""
    rc, out, wall = run_tlc(module, cfg, workers, timeout, os.path.join(WORK, prop, "md_" + name),
                            extra_args=("-coverage", "1") if coverage_actions else ())
    gen, dist, left, depth = parse_mc(out)
    res = {"name": name, "module": module, "cfg": cfg, "states_generated": gen, "distinct_states": dist,
           "depth": depth, "wall_s": round(wall, 1), "ok": False, "violation": None}
    if rc == 124:
        raise ToolError(f"TLC time-out after {timeout}s on {cfg}")
    if "is violated" in out or "Error: " in out:
        if re.search(r"Invariant \w+ is violated|Temporal properties were violated|property .* violated", out) or "is violated" in out:
            m = re.search(r"(Invariant|Action property|Temporal property) (\w+) is violated", out)
            res["violation"] = m.group(2) if m else "unknown"
            res["counterexample"] = out[out.find("Error:"):][:6000]
            return res
        log(out[-3000:])
        raise ToolError(f"TLC error on {cfg}")
    if left != 0 or gen == 0:
        log(out[-2000:])
        raise ToolError(f"TLC did not finish {cfg}")
    # vacuity: every named action must have been taken
    for a in coverage_actions:
        # TLC prints interim coverage reports during long runs: the LAST report counts
        ms = re.findall(r"<" + re.escape(a) + r" line[^>]*>: (\d+):(\d+)", out)
        if not ms or int(ms[-1][1]) == 0:
            raise ToolError(f"vacuous model: action {a} never taken in {cfg}")
    res["ok"] = True
    return res


def mc_emit(prop, name, module, cfg, outfile, workers, timeout):
    """Specification -> implementation: run an exhaustive config whose invariant `Emit` prints one line
    <<"REPLAY", "<json>">> per distinct state (a witness behaviour + the state the specification predicts), write the
    JSON documents to `outfile` (ndjson) for `qxv record <engine> --from-tlc`. Returns the same dict as run_mc plus `emitted`."""
    rc, out, wall = run_tlc(module, cfg, workers, timeout, os.path.join(WORK, prop, "md_" + name))
    gen, dist, left, depth = parse_mc(out)
    res = {"name": name, "module": module, "cfg": cfg, "states_generated": gen, "distinct_states": dist,
           "depth": depth, "wall_s": round(wall, 1), "ok": False, "violation": None, "emitted": 0}
    if rc == 124:
        raise ToolError(f"TLC time-out after {timeout}s on {cfg}")
    os.makedirs(os.path.dirname(outfile), exist_ok=True)
    n = 0
    rest = []
    with open(outfile, "w") as o:
        for line in out.splitlines():
            if line.startswith('<<"REPLAY", '):
                o.write(json.loads(line.strip()[len('<<"REPLAY", '):-2]) + "\n")
                n += 1
            else:
                rest.append(line)
    out = "\n".join(rest)
    res["emitted"] = n
    if "is violated" in out:
        m = re.search(r"(Invariant|Action property|Temporal property) (\w+) is violated", out)
        res["violation"] = m.group(2) if m else "unknown"
        res["counterexample"] = out[out.find("Error:"):][:6000]
        return res
    if "Error: " in out or left != 0 or gen == 0:
        log(out[-3000:])
        raise ToolError(f"TLC error on {cfg}")
    if n == 0:
        raise ToolError(f"vacuous replay: {cfg} emitted no behaviour")
    res["ok"] = True
    return res


def canon_abs(a):
    """canonical text of an abstract diagram (JSON shape abs()): vertices by id, edges by endpoints, phases in units of pi/4"""
    def ph(p):
        return (p[0] * (4 // p[1])) % 8
    v = sorted((x["id"], x["ty"], ph(x["ph"]), tuple(sorted(x.get("vars", []))), bool(x.get("vc", False))) for x in a["v"])
    e = sorted((min(x["u"], x["w"]), max(x["u"], x["w"]), x["t"]) for x in a["e"])
    return json.dumps([v, e, a["ins"], a["outs"], a["sc"], a.get("sf", [])])


def family_agreement(prop, name, cfg, famstr, timeout=1200):
    """The family TLC builds from spec/Family.tla under `cfg` (mc/MC_Family.tla prints every member) and the family the
    harness enumerates for the parameter string `famstr` (gens::enum_family) must be the same SET of diagrams."""
    d = os.path.join(WORK, prop)
    f_tlc = os.path.join(d, f"fam_{name}.tlc.ndjson")
    r = mc_emit(prop, "fam_" + name, "MC_Family.tla", cfg, f_tlc, min(NCPU, 8), timeout)
    if not r["ok"]:
        raise ToolError(f"MC_Family {cfg}: {r['violation']}")
    prefix = os.path.join(d, f"fam_{name}.h")
    summ = record("family", prefix, 1, ["--fam", famstr], timeout)
    with open(f_tlc) as f:
        a = {canon_abs(json.loads(line)) for line in f}
    b = set()
    for sh in glob.glob(prefix + ".*.ndjson"):
        with open(sh) as f:
            b |= {canon_abs(json.loads(line)["g"]) for line in f}
        os.remove(sh)
    os.remove(f_tlc)
    res = {"family": famstr, "cfg": cfg, "members_tlc": len(a), "members_harness": len(b), "harness_enumerated": summ["detail"]["members"],
           "only_tlc": len(a - b), "only_harness": len(b - a), "equal": a == b and len(b) == summ["detail"]["members"]}
    log(f"[{prop}] FAMILY {name}: TLC builds {len(a)} diagrams from spec/Family.tla ({cfg}), the harness enumerates {summ['detail']['members']} "
        f"({len(b)} distinct) for '{famstr}': {'same set' if res['equal'] else 'DIFFERENT'}")
    if not res["equal"]:
        raise ToolError(f"the harness's family '{famstr}' is not the family of {cfg} (only TLC: {len(a - b)}, only harness: {len(b - a)})")
    return res


def circuit_family_agreement(prop, name, cfg, enumstr, timeout=1200):
    """Same as family_agreement for the exhaustive CIRCUIT families: mc/MC_CircFamily.tla (the gate-by-gate build of MC_ToGraph)
    against circ::enum_circuits of the harness for `--enum enumstr`."""
    d = os.path.join(WORK, prop)
    f_tlc = os.path.join(d, f"cfam_{name}.tlc.ndjson")
    r = mc_emit(prop, "cfam_" + name, "MC_CircFamily.tla", cfg, f_tlc, min(NCPU, 8), timeout)
    if not r["ok"]:
        raise ToolError(f"MC_CircFamily {cfg}: {r['violation']}")
    prefix = os.path.join(d, f"cfam_{name}.h")
    summ = record("circfamily", prefix, 1, ["--enum", enumstr], timeout)
    with open(f_tlc) as f:
        a = {json.dumps([c["n"], [(g["t"], g["qs"], g["ph"] % 8) for g in c["gates"]]]) for c in map(json.loads, f)}
    b = set()
    for sh in glob.glob(prefix + ".*.ndjson"):
        with open(sh) as f:
            for line in f:
                c = json.loads(line)["c"]
                b.add(json.dumps([c["n"], [(g["t"], g["qs"], (g["ph"][0] * (4 // g["ph"][1])) % 8) for g in c["gates"]]]))
        os.remove(sh)
    os.remove(f_tlc)
    res = {"circuit_family": enumstr, "cfg": cfg, "members_tlc": len(a), "members_harness": len(b), "harness_enumerated": summ["detail"]["members"],
           "only_tlc": len(a - b), "only_harness": len(b - a), "equal": a == b and len(b) == summ["detail"]["members"]}
    log(f"[{prop}] FAMILY {name}: TLC builds {len(a)} circuits ({cfg}), the harness enumerates {summ['detail']['members']} ({len(b)} distinct) "
        f"for '--enum {enumstr}': {'same set' if res['equal'] else 'DIFFERENT'}")
    if not res["equal"]:
        raise ToolError(f"the harness's circuit family '{enumstr}' is not the family of {cfg} (only TLC: {len(a - b)}, only harness: {len(b - a)})")
    return res


def record(engine, prefix, shards, args, timeout=3600):
    for f in glob.glob(prefix + ".*.ndjson"):
        os.remove(f)
    os.makedirs(os.path.dirname(prefix), exist_ok=True)
    cmd = ["timeout", str(timeout), QXV, "record", engine, "--out", prefix, "--shards", str(shards), *map(str, args)]
    t0 = time.time()
    p = subprocess.run(cmd, stdout=subprocess.PIPE, stderr=subprocess.PIPE, text=True)
    if p.returncode != 0:
        log(p.stdout[-2000:], p.stderr[-2000:])
        # the recorder PROCESS died of a fatal signal (Rust stack overflow aborts with SIGABRT; SIGSEGV, SIGBUS, SIGILL, SIGFPE):
        # the code under test took the process down, which a panic (caught, logged as data) never does and which never
        # happens on the unchanged tree. That is a verdict (NoCrash), not a tool error. Kills (OOM) and time-outs stay tool errors.
        rc = p.returncode if p.returncode >= 0 else 128 - p.returncode
        if rc in (132, 134, 135, 136, 139):
            raise CodeCrash(engine, rc, (p.stderr or "")[-1500:], [str(a) for a in args])
        raise ToolError(f"qxv record {engine} failed rc={p.returncode}")
    summ = None
    for line in p.stdout.splitlines():
        if line.startswith("SUMMARY "):
            summ = json.loads(line[8:])
    if summ is None:
        raise ToolError("qxv printed no SUMMARY")
    summ["record_wall_s"] = round(time.time() - t0, 1)
    return summ


def validate_shard(prop, module, cfg, shard, timeout, idx):
    nlines = sum(1 for _ in open(shard))
    if nlines == 0:
        return {"shard": shard, "lines": 0, "viol": [], "drift": [], "stats": {}, "wall_s": 0}
    rc, out, wall = run_tlc(module, cfg, 1, timeout, os.path.join(WORK, prop, f"md_tr_{idx}"),
                            env_extra={"TRACE": shard},
                            jopts="-Xmx3g -Dtlc2.tool.queue.IStateQueue=StateDeque")
    m = re.search(r'<<"RESULT", "(.*)">>', out)
    if rc == 124:
        raise ToolError(f"trace validation time-out on {shard}")
    if not m:
        # The specification could not even EVALUATE its predicates on an event (a partial operator applied outside its
        # domain: CHOOSE without a witness, a missing record field or function argument, ...). On the unchanged tree every
        # shard is interpretable, so this means the code logged something the specification cannot read as an execution:
        # the trace is rejected at that line (predicate Interpretable); the rest of the shard stays unchecked.
        # Parse errors, time-outs and JVM failures are tool errors as before.
        ev_err = "The error occurred when TLC was evaluating the nested" in out or "Attempted to" in out
        sg = re.findall(r"(\d+) states generated", out)
        if ev_err and sg and "Parsing or semantic analysis failed" not in out and "OutOfMemory" not in out and "StackOverflow" not in out:
            lno = max(1, min(nlines, int(sg[-1])))
            detail = (re.search(r"(Attempted to[^\n]*(?:\n[^\n]*){0,3})", out) or re.search(r"(Error: [^\n]*)", out))
            log(f"trace spec {module} cannot interpret {shard} at line ~{lno}: rejected")
            return {"shard": shard, "lines": nlines, "viol": [[lno, "Interpretable", (detail.group(1)[:300] if detail else "evaluation error")]],
                    "drift": [], "stats": {}, "wall_s": round(wall, 1), "unchecked_after": lno}
        log(out[-3000:])
        raise ToolError(f"trace spec {module} did not consume {shard} (malformed event or spec error)")
    res = json.loads(m.group(1).encode().decode("unicode_escape"))
    if res["lines"] != nlines:
        raise ToolError(f"trace spec consumed {res['lines']} of {nlines} lines of {shard}")
    res["shard"] = shard
    res["wall_s"] = round(wall, 1)
    return res


def validate(prop, module, cfg, prefix, timeout=3600, par=None):
    shards = sorted(glob.glob(prefix + ".*.ndjson"))
    par = par or min(NCPU, len(shards))
    # longest-first is unknown, so simply run more shards than cores for balance
    with concurrent.futures.ThreadPoolExecutor(max_workers=par) as ex:
        futs = [ex.submit(validate_shard, prop, module, cfg, s, timeout, i) for i, s in enumerate(shards)]
        return [f.result() for f in futs]


def shard_lines(shard):
    with open(shard) as f:
        return f.read().splitlines()


def context_of(lines, lno):
    """The event at 1-based line `lno` and the `reset` line that opened its group."""
    ev = json.loads(lines[lno - 1])
    i = lno - 1
    while i >= 0:
        e = json.loads(lines[i])
        if e.get("k") in ("reset", "pair", "circ", "begin", "pairc", "pairn", "pairg", "pairp", "circf"):
            return e, ev
        i -= 1
    return None, ev


def load_known():
    with open(os.path.join(VERIF, "known_findings.json")) as f:
        return json.load(f)["findings"]


def classify(prop, tags, known):
    """A known (unfixed) finding whose required tags are all present, else None."""
    for k in known:
        if k["property"] == prop and k["status"] == "known" and set(k["requires"]) <= set(tags):
            return k
    return None


def write_violation(prop, n, payload):
    d = os.path.join(WORK, prop)
    os.makedirs(d, exist_ok=True)
    p = os.path.join(d, f"violation_{n}.json")
    with open(p, "w") as f:
        json.dump(payload, f, indent=1)
    return p


def write_evidence(prop, tier, seed, level, coverage, assumptions, wall, violations):
    evdir = os.path.join(VERIF, "evidence")
    if os.environ.get("VERIF_HARNESS_DIR"):
        evdir = os.path.join(WORK, "evidence_mutant")      # mutation experiments never overwrite the real evidence
    os.makedirs(evdir, exist_ok=True)
    ev = {"property_id": prop, "tier": tier, "seed": seed, "level": level, "coverage": coverage,
          "assumptions": assumptions, "wall_s": round(wall, 1), "violations": violations}
    with open(os.path.join(evdir, prop + ".json"), "w") as f:
        json.dump(ev, f, indent=1)


