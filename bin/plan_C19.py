"""C19: the seeded workload generators are reproducible and deliver the instances they promise
(quizx/src/generate.rs, quizx/src/random_graph.rs).  Plug-in plan, loaded by plans.py."""


def tagger(prop, pred, reset, ev):
    from plans import generic_tags
    t = generic_tags(prop, pred, reset, ev)
    if ev:
        if isinstance(ev.get("gen"), str):
            t.add(f"gen={ev['gen']}")
        p = ev.get("params")
        if isinstance(p, dict):
            for k in ("qubits", "distance"):
                if k in p:
                    t.add(f"{k}={p[k]}")
            if p.get("depth") == 0:
                t.add("depth=0")
            if "p_cnot" in p and p["p_cnot"] + p["p_cz"] == 0:
                t.add("one_qubit_gates_only")
    return t


def plan(prop, tier, seed, t0):
    from plans import run_plan, COMMON_ASSUME
    q = tier == "quick"
    # at most 6 TLC workers / 6 trace shards validated in parallel
    W = 6
    mcs = [dict(name="gen6", module="MC_Gen.tla", cfg="MC_Gen_q.cfg" if q else "MC_Gen_t.cfg", workers=W, timeout=3000 if q else 9000),
           dict(name="gen4", module="MC_Gen.tla", cfg="MC_Gen_q4.cfg" if q else "MC_Gen_t4.cfg", workers=W, timeout=3000 if q else 9000)]
    T = dict(module="Trace_Gen.tla", cfg="Trace_Gen.cfg", shards=W, timeout=3000 if q else 9000)
    th = [] if q else ["--thorough"]
    traces = [
        # --api: RandomPauliGadgetCircuitBuilder::weight, every builder without .seed() / straight from Default (audit #22)
        dict(name="circuits", engine="gen", args=["--gens", "random_circuit,pauli_gadget,surface_code", "--seeds", 4 if q else 40,
                                                   "--api", 2 if q else 12] + th, **T),
        # --hs-many: events of probability 2^-qubits (all-zero shift string, seed C19_e) need hundreds of instances of the cheapest settings
        dict(name="hidden_shift", engine="gen", args=["--gens", "hidden_shift", "--seeds", 12 if q else 100, "--hs-many", 400 if q else 3000] + th, **T),
        dict(name="stab_state", engine="gen", args=["--gens", "stab_state", "--seeds", 12 if q else 100] + th, **T),
    ]
    return run_plan(prop, tier, seed, t0, mcs, traces, "exploration", COMMON_ASSUME + [
                        "the ChaCha stream behind StdRng::seed_from_u64 is not modelled: reproducibility and parameter conformance are "
                        "observed on sampled seeds (consecutive seeds from a base derived from VERIF_SEED), not proved for all seeds",
                        "probabilities are passed as integer percent / 100.0 (f32); the harness projection circ_json (harness/src/circ.rs) "
                        "faithfully reports the circuit the code returned",
                        "again_equal is the code's own PartialEq on Circuit / equality of abs() on graphs, computed in the harness; TLC "
                        "re-compares the logged payloads for the first seed of every parameter setting"],
                    "MC (a check of the CONTRACT, not of the generators): for every oracle circuit over {Z, CZ, CCZ} up to the bound and EVERY "
                    "shift string the specification's own hidden-shift construction keeps the promise |<s|C|0..0>|^2 = 1 (6 qubits with CCZ, "
                    "4 qubits deeper), the shift-before-Hadamard variant breaks it, the state-vector evaluator is column 0..0 of CircSem, every "
                    "spec-built equatorial stabiliser diagram (<= 3 (4) qubits, all phases/edge sets) has norm 1 under Den and loses it with the "
                    "wrong scalar exponent, basis layers are inverted by the contract's adjoint layer, PauliGadgetOK / RandomCircuitOK judge 40 "
                    "hand-made positive/negative examples as annotated; TRACE: one execution = one generator x one parameter setting x several "
                    "seeds, every build repeated with identical seed/parameters; non-trivial = builds that returned at least one gate / edge; "
                    "each returned object is decided in TLC by the generator's contract predicate (hidden shift: exact amplitude via "
                    "Gen!CircApplyZero, for a sample also via the full CircSem; stabiliser states: exact norm via Den), AgainEqual, "
                    "Deterministic (TLC compares the payloads of two build events with equal key) and NoPanic on admissible parameters; "
                    "--api: weight(w) builds are logged under the key of the min_weight(w).max_weight(w) build of the same seed (so "
                    "Deterministic compares them and PauliGadgetOK judges the weights); builds WITHOUT .seed() (Default, Circuit::random_*(), "
                    "::new(); parameters read back from the builders' public fields) are judged by the contract only, the 40-qubit "
                    "default hidden-shift instance by its shape only; DefaultAdmissible: a builder nobody configured holds admissible parameters",
                    tagger=tagger)


META = dict(level="exploration", engine="gen", design_ref="DESIGN.md section 3 C19 (spec/Gen.tla header)",
            technique="explicit TLA+ contracts of the generators; TLC exhaustive check of the contract definitions on the specification's own "
                      "constructions + TLC trace validation of recorded builds of the real generators over a seed x parameter grid",
            text="spec/Gen.tla states, per generator, what every returned object must satisfy (qubit count, depth, gate kinds with non-zero "
                 "probability, distinct in-range qubit arguments; the hidden-shift layer structure H;O_f;H;Z^s;O_dual;H with its oracle "
                 "layout; Pauli-gadget blocks = basis layer, one parity-phase gate of admissible weight and phase k*pi/denominator, "
                 "non-Clifford for even denominators >= 4, adjoint layer; stabiliser-state arity). Reproducibility and parameter conformance "
                 "are explored over sampled seeds x an admissible parameter grid (random circuits 1-5 qubits, depth 0-12, 9 probability "
                 "settings incl. zeros and the convenience methods uniform / clifford_t / with_cliffords; hidden shift 6 (and 8) qubits, clifford_depth <= 4, n_ccz <= 2; gadgets on 1-5 qubits, every "
                 "denominator 2..8; stabiliser states on 0-5 qubits in both backends; surface code d <= 3). The two SEMANTIC promises are "
                 "not sampled numerically but decided exactly by TLC with the specification's own semantics on every recorded object: "
                 "|<shift|C|0..0>|^2 = 1 with the gate-matrix semantics CircSem (state-vector form, cross-checked against the full tensor) "
                 "and SUM_b |Den(g)[b]|^2 = 1 with the reference denotation.",
            note="exploration: seeds are sampled, the random stream is not modelled; the MC part checks the contract definitions (satisfiable, "
                 "implied by the documented construction, discriminating), not the generators; the stabiliser-state builder has no edge "
                 "probability parameter (fixed 1/2); distribution properties (uniformity of qubit choices, gate frequencies matching the "
                 "probabilities) are not claimed; the surface-code workload is only checked for arity/initialise/measure frame and determinism "
                 "(it is not seeded; unused syndrome qubits are reported as L1 drift)")

ENGINE = {"name": "gen", "path": "spec/Gen.tla mc/MC_Gen.tla mc/Trace_Gen.tla harness/src/eng_gen.rs bin/plan_C19.py",
          "serves_properties": ["C19"], "kind_free_text": "TLC check of generator contracts on the spec's own constructions + trace validation of recorded builds (seed x parameter grid)"}
