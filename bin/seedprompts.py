#!/usr/bin/env python3
"""usage: bin/seedprompts.py <round letter> [--history]
Writes one prompt per property to /tmp/prompts/<ID>_<round>.txt for a new round of independently seeded breaking changes and
creates the scratch worktrees /tmp/seed_<ID>_<round> of /repo's HEAD.  A prompt = seeded/PROMPT.txt (the property's text and the
worktree only, nothing from /verif) + the one-line summaries of the changes earlier rounds already wrote for that property, so
that the new change is at a different site.  --history adds the request of round f: prefer violations that depend on a history
or on a combination (state left behind by one call, re-use of an object, two cooperating sites, option combinations).
Then: one sub-agent per prompt ("Your complete task instructions are in the file /tmp/prompts/<ID>_<round>.txt ..."), and for every
finished agent a line "<ID>_<round> <ID> [<other ID> ...]" appended to work/seedq.txt (bin/seedqd.sh processes the queue)."""
import glob, json, os, subprocess, sys

rnd = sys.argv[1]
history = "--history" in sys.argv
tmpl = open("/verif/seeded/PROMPT.txt").read()
os.makedirs("/tmp/prompts", exist_ok=True)
for line in open("/verif/properties.jsonl"):
    p = json.loads(line)
    pid = p["id"]
    wt = f"/tmp/seed_{pid}_{rnd}"
    prev = []
    for d in sorted(glob.glob(f"/verif/seeded/{pid}_?")):
        prev.append("- " + json.load(open(d + "/meta.json")).get("summary", "")[:260])
    text = json.dumps({k: p[k] for k in ("id", "title", "statement", "quantifier", "why_tests_cant", "anchors")}, indent=1)
    pr = tmpl.replace("{WT}", wt).replace("{PROP}", text)
    pr += ("\n\nOther engineers have already written the following changes for this property; yours must be at a DIFFERENT site and of a "
           "different kind (a different function, option or code path named by the property).")
    if history:
        pr += (" This time, STRONGLY prefer a change whose violation is HISTORY- or COMBINATION-dependent rather than a single unusual input "
               "to a single function: e.g. state left behind by one public call that makes a LATER call wrong, two cooperating sites that "
               "each look fine alone, an option combination, a particular order of operations, re-use of an object, a value that only "
               "arises after several steps. Look through ALL the files named in the anchors (and the helpers they call) before choosing.")
    pr += "\n" + "\n".join(prev) + "\n"
    open(f"/tmp/prompts/{pid}_{rnd}.txt", "w").write(pr)
    subprocess.run(["git", "-C", "/repo", "worktree", "add", "--detach", wt, "HEAD"], stdout=subprocess.DEVNULL, stderr=subprocess.DEVNULL)
print("prompts in /tmp/prompts, worktrees /tmp/seed_<ID>_" + rnd)
