#!/usr/bin/env python3
"""print the markdown table of /verif/seeded/*/meta.json for DESIGN.md section 9"""
import json, glob, os
rows = []
for f in sorted(glob.glob("/verif/seeded/*/meta.json")):
    m = json.load(open(f))
    sid = os.path.basename(os.path.dirname(f))
    cks = "; ".join(f"{c['check']}: exit {c['exit']}, {c['result'].split(' in ')[0]}" for c in m.get("checks_run_against_it", []))
    ok = m.get("confirmed_by_coordinator", {})
    conf = "yes" if all(ok.get(k) for k in ("demo_fails_with_change", "demo_passes_without_change", "full_suite_passes_with_change")) else "NO"
    rows.append(f"| {sid} | {m['property']} | {m['summary'][:230].replace('|', '/')} | {conf} | {cks} |")
print("| seed | property | change (written independently, from the property text only) | confirmed (demo fails with / passes without, suite green) | checks run against it |")
print("|---|---|---|---|---|")
print("\n".join(rows))
