#!/usr/bin/env python3
"""Regenerate /verif/MANIFEST.json from bin/plans.py (PLANS + META + NOT_APPLICABLE)."""
import json, os, sys, subprocess
sys.path.insert(0, os.path.dirname(os.path.abspath(__file__)))
import plans
VERIF = os.path.dirname(os.path.dirname(os.path.abspath(__file__)))
props = [json.loads(l)["id"] for l in open(os.path.join(VERIF, "properties.jsonl"))]
hook_commits = subprocess.run(["git", "-C", "/repo", "log", "--format=%h %s", "--grep=^verif hook"],
                              stdout=subprocess.PIPE, text=True).stdout.strip().splitlines()
checks = []
for p in props:
    if p in plans.PLANS:
        m = plans.META[p]
        checks.append({
            "property_id": p,
            "quick_cmd": f"bin/check {p} quick",
            "thorough_cmd": f"bin/check {p} thorough",
            "evidence_file": f"/verif/evidence/{p}.json",
            "replay_cmd_template": f"bin/check {p} --replay {{path}}",
            "engine": m["engine"],
            "level_claimed": {"category": m["level"], "text": m["text"], "design_ref": m["design_ref"]},
            "level_note": m["note"],
            "technique": m.get("technique_override") or m["technique"],
        })
na = [{"property_id": p, "reason": plans.NOT_APPLICABLE.get(p, "check not built yet in this round; see DESIGN.md section 3 for the planned specification")}
      for p in props if p not in plans.PLANS]
man = {
    "version": 1,
    "setup_cmd": "bin/check setup",
    "hooks": {
        "guard": "zxcalc_quizx_verif",
        "enable": "rustc --cfg zxcalc_quizx_verif, set for the harness build (which compiles /repo/quizx as a path dependency) in /verif/harness/.cargo/config.toml",
        "baseline_off_cmd": "cd /repo && cargo test --workspace --no-fail-fast --offline",
        "source_commits": [c.split()[0] for c in hook_commits],
        "add_only": True,
    },
    "engines": plans.ENGINES,
    "checks": checks,
    "notes": "Model-based verification with an explicit TLA+ specification (spec/*.tla), exhaustive TLC configs (mc/MC_*.cfg) and trace validation of executions of the real code recorded by harness/ (mc/Trace_*.tla). See DESIGN.md.",
    "not_applicable": na,
}
json.dump(man, open(os.path.join(VERIF, "MANIFEST.json"), "w"), indent=1)
print("MANIFEST.json:", len(checks), "checks,", len(na), "not_applicable")
