"""C17 - F2 matrix routines (quizx/src/linalg.rs): plan, manifest entry and engine description.
Loaded by the plug-in mechanism at the end of bin/plans.py."""

# TLC processes are capped at 8 workers / 8 parallel single-worker shard validations
W = 8


def plan(prop, tier, seed, t0):
    from plans import run_plan, COMMON_ASSUME
    q = tier == "quick"
    # the quick config runs with TLC's action coverage (x3 run time) as the vacuity guard of the state machine shared by
    # all three configs: every invariant is of the form `pc = .. => ..`, so each build action must have been taken
    mcs = [dict(name="f2", module="MC_F2.tla", cfg="MC_F2_q.cfg", workers=W, timeout=3000, actions=("PickShape", "AddRow", "Run"))]
    if not q:
        mcs.append(dict(name="f2_t", module="MC_F2.tla", cfg="MC_F2_t.cfg", workers=W, timeout=3000))
        mcs.append(dict(name="f2_wide", module="MC_F2.tla", cfg="MC_F2_x.cfg", workers=W, timeout=3000))
    T = dict(module="Trace_F2.tla", cfg="Trace_F2.cfg", shards=W)
    if q:
        traces = [
            dict(name="exh", engine="f2", args=["--exhaustive", "3,3", "--exhaustive", "2,4"], **T),
            dict(name="rand", engine="f2", args=["--random", 250, "--maxdim", 24, "--special"], **T),
            dict(name="rand8", engine="f2", args=["--random", 250, "--maxdim", 8], **T),
        ]
    else:
        traces = [
            dict(name="exh", engine="f2", args=["--exhaustive", "3,4", "--exhaustive", "4,3"], **T),
            dict(name="rand", engine="f2", args=["--random", 3000, "--maxdim", 24, "--special"], **T),
            dict(name="rand8", engine="f2", args=["--random", 6000, "--maxdim", 8], **T),
        ]
    assume = [a for a in COMMON_ASSUME if "absg.rs" not in a and "ZXSem" not in a] + [
        "the recording proxy (harness/src/eng_f2.rs, struct Rec) logs exactly the row operations gauss_x hands to it",
        "matrices with a zero dimension are outside the property (Mat2 cannot represent 0 x c); block size >= 1",
        "row_weight / weight / unit_rows return u8: for matrices with more than 255 ones (possible from 16 x 16 on) weight() cannot "
        "return the count (panic in an overflow-checked build, wrapped value otherwise); C17 does not speak about Hamming weights, so "
        "that case is counted (trace_stats.weight_overflow, weight_overflow_panics), not judged",
    ]
    return run_plan(prop, tier, seed, t0, mcs, traces, "model_checking", assume,
                    "MC: every 0/1 matrix of the listed shapes x every block size 1..cols x both modes on the transcription of "
                    "gauss_helper (row space unchanged, (reduced) echelon, rank, reported operations = G with G*M = M' and X -> G*X on "
                    "every other object, inverse two-sided iff invertible, null space = a basis of the kernel) and the algebraic laws of "
                    "transpose / stack / mul on the abstract operators; TRACE: one execution = one matrix on which gauss_x (recording "
                    "proxy, every block size, both modes), gauss, rank, inverse, nullspace, transpose, vstack, hstack, mul (all four "
                    "operand-ownership overloads), RowOps and ColOps, row_weight / weight / unit_rows, zeros / ones / id / unit_vector, "
                    "Index / IndexMut<(usize, usize)> and Display ran in the real code (--special: all-ones and other constructor-built "
                    "matrices with 254..576 ones); each logged result is decided by TLC with the abstract definitions (RowSpace up to "
                    "6 x 6, RankElim above, up to 24 x 24); non-trivial = calls with a non-degenerate check (gauss_x runs that emitted "
                    "at least one operation, every other call)")


META = dict(
    level="model_checking", engine="f2", design_ref="DESIGN.md section 3 C17",
    technique="explicit TLA+ specification; TLC exhaustive model checking of the spec + TLC trace validation of recorded executions of the real code",
    text="spec/F2.tla defines F2 matrices abstractly (row addition as the single action, RowSpace, Rank declaratively and by textbook "
         "elimination, echelon / reduced echelon, kernel) and transcribes gauss_helper loop by loop (Patel-Markov-Hayes duplicate sub-row "
         "cancellation per block, forward and backward phases, emitted row operations) with inverse and nullspace on top; TLC exhausts the "
         "post-conditions of C17 for every matrix up to 3x4 / 4x3 (thorough: also 4x4, 3x5, 2x6) x every block size x both modes and the "
         "algebraic laws; every result of the real Mat2::{gauss_x, gauss, rank, inverse, nullspace, transpose, vstack, hstack, mul, "
         "row_add/row_swap, col_add/col_swap, all four Mul overloads, row_weight, weight, unit_rows, zeros, ones, id, unit_vector, "
         "Index/IndexMut<(usize,usize)>} on the exhaustive family and on seeded random matrices up to 24x24 (sparse, dense, low rank, "
         "duplicate rows, zero rows/columns, repeated sub-rows, invertible) is validated by TLC against the ABSTRACT machine: any correct "
         "elimination order is accepted, agreement with the transcription is only reported as L1 drift. The code's own RowOps proxy "
         "parameter is the trace hook (no change to the repository).",
    note="bounded: exhaustive up to 3x4 / 4x3 on the code (4x4, 3x5, 2x6 on the specification only), random up to 24x24; matrices with a zero "
         "dimension and block size 0 are outside the property; row-space equality above 6x6 is decided through ranks "
         "(rank A = rank B = rank [A;B] by an independent elimination) instead of enumerating 2^rows combinations")

ENGINE = {"name": "f2", "path": "spec/F2.tla mc/MC_F2.tla mc/Trace_F2.tla harness/src/eng_f2.rs bin/plan_C17.py",
          "serves_properties": ["C17"],
          "kind_free_text": "TLC exhaustive check of the transcribed chunked Gaussian elimination + trace validation of Mat2 calls against the abstract F2 machine"}
