#!/bin/sh
# usage: bin/seedverify.sh <worktree>   confirm: demo fails with the change, passes without it, full suite passes with it
wt="$1"; export CARGO_TARGET_DIR=$wt/target
cd $wt/quizx || exit 2
[ -f tests/seed_demo.rs ] || cp $wt/demo.rs tests/seed_demo.rs
echo "== with change: demo"; cargo test --offline --test seed_demo 2>&1 | grep -E "^test result|FAILED|error" | head -3
git -C $wt diff -- quizx/src > $wt/.seed_change.diff; git -C $wt apply -R $wt/.seed_change.diff
echo "== without change: demo"; cargo test --offline --test seed_demo 2>&1 | grep -E "^test result|FAILED|error" | head -3
git -C $wt apply $wt/.seed_change.diff
mv tests/seed_demo.rs $wt/seed_demo.rs.aside
echo "== with change: full suite"; cargo test --offline 2>&1 | grep -E "^test result|FAILED|error\[" | head -8
mv $wt/seed_demo.rs.aside tests/seed_demo.rs
git -C $wt diff --stat -- quizx/src | tail -1
