#!/usr/bin/env python3
"""regenerate the as-built table of DESIGN.md section 10.1 (between the GENERATED markers) from MANIFEST.json and evidence/*.json"""
import json, os
V = "/verif"
M = json.load(open(V + "/MANIFEST.json"))
rows = []
for c in sorted(M["checks"], key=lambda c: c["property_id"] if "property_id" in c else c.get("id")):
    pid = c.get("property_id") or c.get("id")
    evp = f"{V}/evidence/{pid}.json"
    if not os.path.exists(evp):
        continue
    e = json.load(open(evp)); cov = e["coverage"]
    mc = "; ".join(f"{m['cfg'].replace('.cfg','')} ({m['distinct_states']} st)" for m in cov.get("mc", []))
    tr = "; ".join(f"{t['name']}:{t['engine']} ({t['summary']['groups']} exec)" for t in cov.get("traces", []))
    rows.append(f"| {pid} | {c.get('level', e.get('level'))} | {mc} | {tr} | {e['tier']} {int(e['wall_s'])} s, drift {cov.get('l1_drift', 0)} |")
txt = ("| property | level | exhaustive configs (distinct states) | traces of the real code (executions validated) | last run |\n|---|---|---|---|---|\n"
       + "\n".join(rows) + "\n")
s = open(V + "/DESIGN.md").read()
a = s.index("<!-- BEGIN GENERATED as-built table"); a = s.index("\n", a) + 1
b = s.index("<!-- END GENERATED as-built table -->")
open(V + "/DESIGN.md", "w").write(s[:a] + txt + s[b:])
print(len(rows), "rows")
