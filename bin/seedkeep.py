#!/usr/bin/env python3
"""usage: bin/seedkeep.py <seed-id> <worktree> <verify-log> <check-log> [<check-log> ...]
copies patch.diff, demo.rs, meta.json of a verified seeded change into /verif/seeded/<seed-id>/ and records what was run"""
import json, os, re, shutil, sys
sid, wt, vlog, *clogs = sys.argv[1:]
d = f"/verif/seeded/{sid}"
os.makedirs(d, exist_ok=True)
shutil.copy(f"{wt}/patch.diff", f"{d}/patch.diff")
shutil.copy(f"{wt}/demo.rs" if os.path.exists(f"{wt}/demo.rs") else f"{wt}/quizx/tests/seed_demo.rs", f"{d}/demo.rs")
meta = json.load(open(f"{wt}/meta.json"))
v = open(vlog).read()
meta["confirmed_by_coordinator"] = {
    "demo_fails_with_change": "FAILED" in v.split("== without change")[0],
    "demo_passes_without_change": "FAILED" not in v.split("== without change")[1].split("== with change: full suite")[0],
    "full_suite_passes_with_change": "FAILED" not in v.split("== with change: full suite")[1],
    "log": v[-1500:],
}
det = []
for c in clogs:
    t = open(c).read()
    m = re.search(r"\[(C\d+)\] quick: (.*)", t)
    rc = re.search(r"rc=(\d+)", t)
    det.append({"check": m.group(1) if m else os.path.basename(c), "result": m.group(2) if m else "no summary",
                "exit": int(rc.group(1)) if rc else None, "violation_lines": t.count("\nVIOLATION "),
                "first_violation": next((l for l in t.splitlines() if l.startswith("VIOLATION")), None)})
meta["checks_run_against_it"] = det
json.dump(meta, open(f"{d}/meta.json", "w"), indent=1)
print(sid, [(x["check"], x["exit"], x["violation_lines"]) for x in det])
