"""C14: QASM printing and parsing round-trip circuits (quizx/src/circuit.rs to_qasm / from_qasm / CircuitWriter,
quizx/src/gate.rs from_qasm_name / qasm_name / Gate::to_qasm).  Plug-in plan, loaded by plans.py."""


def plan(prop, tier, seed, t0):
    from plans import run_plan, COMMON_ASSUME
    q = tier == "quick"
    # at most 6 TLC workers / 6 trace shards validated in parallel
    mcs = [dict(name="qasm_q", module="MC_Qasm.tla", cfg="MC_Qasm_q.cfg", workers=6, timeout=3000)]
    if not q:
        mcs.append(dict(name="qasm_t", module="MC_Qasm.tla", cfg="MC_Qasm_t.cfg", workers=6, timeout=3000))
    T = dict(module="Trace_Qasm.tla", cfg="Trace_Qasm.cfg", shards=6)
    traces = [
        # exhaustive: zero-gate circuits on 1..4 qubits, the name table, rz/rx with EVERY phase k/d (d <= 16), every circuit
        # over the property's gate list (incl. init_anc / post_sel, all argument orders) up to the length bound
        dict(name="enum", engine="qasm",
             args=["--zero", "--names", "--phases", "--enum", "3,1", "--enum", "2,2", "--enum", "1,3" if q else "2,3,small",
                   "--stride", 3 if q else 1] + ([] if q else ["--enum", "1,3", "--enum", "3,2"]), **T),
        # seeded random circuits, 1..4 qubits, <= 10 gates, phases k/d with d in 1..=16; circuits with pp / measure_r / measure_d
        dict(name="rand", engine="qasm", args=["--random", 1500 if q else 60000, "--outside", 200 if q else 6000], **T),
        # parse direction: systematic program families (39 register shapes x 3 declaration layouts, 31 unsupported statements x
        # 4 positions, every phase k/d in 9 spellings, statements beyond the property) and seeded random programs
        dict(name="progs", engine="qasm", args=["--enum-progs", "--progs", 1500 if q else 60000], **T),
        # extended programs (spec/Qasm.tla QParseX): whole-register operands (broadcast over registers of equal size, size-1 operands
        # repeated, mismatches, overlaps) of every gate of the property's list, user gate definitions (parameters, nesting, empty body,
        # bodies with barrier / U / undefined names, applied to qubits / whole registers / never) and seeded random ones;
        # Circuit::from_file on missing / directory / empty paths.  Every third text of ALL traces is read through Circuit::from_file.
        dict(name="xprogs", engine="qasm", args=["--enum-xprogs", "--xprogs", 1500 if q else 40000], **T),
    ]
    return run_plan(prop, tier, seed, t0, mcs, traces, "model_checking", COMMON_ASSUME + [
                        "texts are abstracted to programs (registers, statements, parameters as rationals); the harness renders a program to "
                        "concrete text (spelling of parameters, place of declarations) and reads printed text back with a plain line reader "
                        "(harness/src/eng_qasm.rs render_prog / read_printed); lexing, expression evaluation and float-to-rational "
                        "approximation (crate openqasm, num-rational) are exercised on the real code only, not modelled in TLA+",
                        "phases written as plain decimals (0.785398) are compared in the harness with tolerance 1e-5 (units of pi); TLC only "
                        "sees the boolean",
                        "whole-register operands of gates and user gate definitions are modelled by the extension QParseX of spec/Qasm.tla "
                        "(denotation per OpenQASM 2: broadcast, inlining); for them the property only demands 'the denoted circuit or an error, "
                        "never a panic, never dropped gates' (DenotedOrErr) and an error where barrier / reset / U / an undefined name is reached; "
                        "several classical registers are outside the abstract syntax"],
                    "MC: the front-end machine of spec/Qasm.tla (declarations -> consecutive offsets; statement by statement writer with absorbing "
                    "error; name table; printer) on every circuit over the property's gate list plus pp / measure_r / measure_d up to the bound "
                    "(RoundTrip, OutsideInv, PrintShape, DomainCovered) and on every abstract program with 1-3 registers and <= 2-3 statements incl. "
                    "barrier / reset / if / U / undefined names / measure / built-in CX / ill-typed statements (OffsetsInOrder, ErrAbsorbing, "
                    "NothingDropped, UnsupportedIsErr, SupportedIsOk, Reprint), NameTableInverse; TRACE: one execution = one circuit printed by "
                    "to_qasm and read back by from_qasm (L2 RoundTripOK: parsed circuit = original, decided by TLC on the logged circuits with raw "
                    "[num, den] phases; circuits with undeclared gate names must give Err) or one generated program parsed by from_qasm and "
                    "compared by TLC with QParse(prog) of the specification (expected ok: same qubit count / kinds / qubits / phases; expected "
                    "err: Err, never panic, never Ok); extended programs (whole-register operands, user gate definitions) are compared with "
                    "QParseX(prog): an accepted text must give exactly the denoted gate list, a text reaching an unsupported construct must give "
                    "Err; GType::num_qubits against the arity each gate name is declared with; every third text goes through Circuit::from_file; "
                    "non-trivial = circuits with >= 1 gate, programs with >= 1 statement")


META = dict(level="model_checking", engine="qasm", design_ref="spec/Qasm.tla header (C14)",
            technique="explicit TLA+ specification; TLC exhaustive model checking of the spec + TLC trace validation of recorded executions of the real code",
            text="spec/Qasm.tla transcribes the front end as a machine over abstract programs: register declarations receive consecutive qubit "
                 "offsets in declaration order (Linearize::visit_qreg), statements are written one by one (CircuitWriter: opaque gates through the "
                 "name table of gate.rs and the opaque prelude of from_qasm_parser, built-in CX, measure; barrier / reset / U / conditionals / "
                 "undeclared or ill-typed gates -> error, absorbing, no partial circuit), the qubit count of a statement-free program comes "
                 "from the declarations, and the printer (Display, Gate::to_qasm: one register q[n], one statement per gate, a parameter only "
                 "for rz / rx).  TLC proves on all small instances that parsing the printed program gives the circuit back (RoundTrip), that "
                 "the two name tables are mutually inverse on all gate kinds, that offsets are consecutive / in declaration order / bijective, "
                 "that errors are absorbing, that accepted programs yield exactly one gate per statement and that every unsupported construct "
                 "gives an error.  The binding to the real code is trace validation: TLC decides RoundTripOK on what to_qasm + from_qasm really "
                 "produced (exhaustively for every phase k/d with d <= 16 on rz and rx, every small circuit, zero-gate circuits; seeded random "
                 "circuits up to 4 qubits x 10 gates) and compares from_qasm on harness-rendered texts of generated programs (several registers, "
                 "three declaration layouts, nine spellings of every phase (six exact, three with a decimal part) incl. un-normalised values, 31 unsupported statements at every "
                 "position) with QParse of the specification; texts with whole-register operands (broadcast) and user gate definitions are compared with the "
                 "extension QParseX (OpenQASM 2 denotation: applications in lock-step, bodies inlined with parameters substituted): an accepted text "
                 "must yield exactly the denoted gate list, a text that reaches barrier / U / an undefined name must be rejected, never a panic; "
                 "every third text is read through Circuit::from_file.  The claim is model checking of the transcribed machine plus per-execution "
                 "validation of the code against it; what TLA+ cannot express (the text level: lexer, float approximation) is covered by the "
                 "recorded executions only.",
            note="bounded: MC <= 3 qubits x <= 3 gates and <= 3 registers x <= 3 statements; traces <= 4 qubits x <= 10 gates, <= 3 registers of <= 3 "
                 "qubits x <= 8 statements; denominators <= 16 (the property's quantifier); plain-decimal phases only up to 1e-5; pp and measure_r are "
                 "not declared by the front end: circuits containing them are outside the property's gate list and are only required to be "
                 "rejected with an error; measurement (measure / measure_d, classical variables are not printed), the built-in CX and ill-typed "
                 "statements are compared with the specification as refinement (L1 drift) only")

ENGINE = {"name": "qasm", "path": "spec/Qasm.tla mc/MC_Qasm.tla mc/Trace_Qasm.tla harness/src/eng_qasm.rs bin/plan_C14.py",
          "serves_properties": ["C14"], "kind_free_text": "TLC exhaustive front-end machine (offsets, writer, name table, printer) + trace validation of to_qasm/from_qasm round trips and of parsing generated texts"}
