#!/bin/sh
# usage: bin/seedrerun.sh <seed-id> <ID> [<ID> ...] [-- note text]   re-run quick checks against a KEPT seeded change (seeded/<seed-id>/patch.diff)
# and append the result to its meta.json
cd /verif
sid="$1"; shift
n=$(echo "$sid" | tr -d '_' | tr 'C' 's')
ids=""; note=""
while [ $# -gt 0 ]; do if [ "$1" = "--" ]; then shift; note="$*"; break; fi; ids="$ids $1"; shift; done
for id in $ids; do [ -f work/seed_${n}_$id.log ] && mv work/seed_${n}_$id.log work/seed_${n}_$id.prev.$(date +%s).log; done
bin/seedcheck.sh $n /verif/seeded/$sid $ids > /dev/null 2>&1
python3 - "$sid" "$n" "$note" $ids <<'PY'
import json, re, sys
sid, n, note, *ids = sys.argv[1:]
p = f"/verif/seeded/{sid}/meta.json"; m = json.load(open(p))
for i in ids:
    t = open(f"/verif/work/seed_{n}_{i}.log").read()
    mm = re.search(r"\[(C\d+)\] quick: (.*)", t); rc = re.search(r"rc=(\d+)", t)
    e = {"check": i, "result": mm.group(2) if mm else "no summary", "exit": int(rc.group(1)) if rc else None,
         "violation_lines": t.count("\nVIOLATION "), "first_violation": next((l for l in t.splitlines() if l.startswith("VIOLATION")), None)}
    if note: e["note"] = note
    m.setdefault("checks_run_against_it", []).append(e)
    print(sid, i, e["exit"], e["result"][:80])
json.dump(m, open(p, "w"), indent=1)
PY
