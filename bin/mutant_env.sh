#!/bin/sh
# usage: bin/mutant_env.sh <name>     prints the commands' environment for a mutation experiment that leaves /repo untouched
# creates /tmp/wt_<name> (git worktree of /repo HEAD) and /tmp/h_<name> (copy of the harness pointing at it)
set -e
n="$1"
[ -d /tmp/wt_$n ] || git -C /repo worktree add --detach /tmp/wt_$n HEAD >/dev/null 2>&1
mkdir -p /tmp/h_$n
rsync -a --delete --exclude target /verif/harness/ /tmp/h_$n/
sed -i "s#path = \"/repo/quizx\"#path = \"/tmp/wt_$n/quizx\"#" /tmp/h_$n/Cargo.toml
echo "edit files under /tmp/wt_$n/quizx/src, then run:  VERIF_HARNESS_DIR=/tmp/h_$n bin/check <ID> quick"
echo "clean up afterwards:  git -C /repo worktree remove --force /tmp/wt_$n; rm -rf /tmp/h_$n"
