"""C13 - the qgraph JSON encoding round-trips diagrams.

MC     mc/MC_JsonG.tla   the transcription spec/JsonG.tla (Encode = JsonGraph::from_graph, Decode = to_graph,
                         scalar and phase fields) on the Family.tla family: anchored isomorphism, equal denotation,
                         well-formed document, scalar classes, independence of the map iteration order, and the
                         isomorphism test itself (two searches agree, perturbations are rejected)
TRACE  engine `json` (harness/src/eng_json.rs) -> mc/Trace_JsonG.tla
       fam   family members (stride) decorated with phases n/d (d in {1,2,3,4,8,16,256} or any d <= 256), coordinates,
             scalars of every class + a list of named diagrams x the scalar catalogue
       rand  seeded random diagrams (<= 7 spiders, <= 4 boundaries, scattered names, H-boxes) and `big`
             diagrams (9..16 spiders, isomorphism by refinement, no denotation)
       each through encode_graph/decode_graph (vec, hash), serde of hash_graph::Graph, write_graph/read_graph
       api   (option --api of the `rand` trace; audit #24) JsonPhase::to_phase on phase texts of other writers rendered from
             logged shapes, JsonPhase::from_phase with caller-chosen PhaseOptions, the four Scalar4 <-> JsonScalar conversion
             impls, hand-written scalar documents (phasenodes, is_zero, is_unknown, JsonScalar::unknown()), and whole
             documents in other writers' shapes (hadamard-typed edges, boolean io flags, parallel edges, chained virtual nodes)
At most 6 TLC workers / 6 shards at a time."""
from vlib import *

TECH = "explicit TLA+ specification; TLC exhaustive model checking of the spec + TLC trace validation of recorded executions of the real code"

META = dict(
    level="model_checking", engine="json", design_ref="DESIGN.md section 3 C13", technique=TECH,
    text="spec/JsonG.tla models the qgraph document as a TLA+ record with the field names of json.rs (wire_vertices, node_vertices, "
         "undir_edges, scalar; the three hash maps as association lists in iteration order) and transcribes from_graph (boundaries to wire "
         "vertices with input/output indices, spiders to node vertices with the \"\" conventions for default phases, a Hadamard edge to an "
         "is_edge hadamard node with the mean coordinate plus two plain edges, the scalar through Ring!ExactPhasePow or the float factor) "
         "and to_graph (nodes, then wires, edges re-fused through ZXGraph!Smart with the virtual nodes' neighbours collected in edge order, "
         "inputs/outputs ordered by index, a present scalar replacing the accumulated one). TLC exhausts, over every diagram of a bounded "
         "family x scalar classes x coordinate layouts: no panic, well-formed document, Decode(Encode(g)) anchored-isomorphic to g "
         "(types, phases, edge types, coordinates), Den equal, exact scalars identical, result independent of the map iteration order; the "
         "isomorphism test is itself cross-checked (direct search = signature refinement, perturbed diagrams rejected). Every round trip "
         "of the real code (encode_graph/decode_graph in both backends, serde of hash_graph::Graph, write_graph/read_graph) on family "
         "members, named and random diagrams is validated by TLC: the decoded diagram is anchored-isomorphic to the input with phases as "
         "exact reduced pairs n/d (d <= 256) and coordinates, Den(post) = Den(pre) when denotable, the emitted text - read by an independent "
         "reader in the harness - is a well-formed document whose SPEC-side decoding is isomorphic to the input and which equals "
         "Encode(pre) up to naming (L1), exact-class scalars come back as the same ring element.",
    note="'preserved exactly' is read as Scalar4's own ==: four equal dyadic coefficients and no `approx` flag that the original did not "
         "carry (decoding used to multiply by the float factor 1.0 and flag every scalar approximate: fixed in quizx, e15a797). Floating point is outside TLA+: 'to floating-point tolerance' is the harness's "
         "|decoded - original| <= 1e-9 |original| on complex doubles, for the decoded scalar and for an independent reading of the scalar "
         "fields. Coordinates are multiples of 0.1 compared at 0.1 (abs_ext) resp. 0.001 (document); the last-bit accuracy of serde_json's "
         "float parser and JSON byte syntax are not covered. Boolean variables on spiders, W nodes / w_io edges and Z-box labels are outside "
         "the property's quantifier; H-boxes are checked structurally only (no denotation). Documents of other writers (parallel edges, "
         "hadamard-typed edges, virtual nodes joined to each other, boolean input flags) and their phase / scalar spellings are sampled by the "
         "harness's own writer (option --api) and judged only as far as: what the text denotes, or an error.")

ENGINE = {"name": "json", "path": "spec/JsonG.tla mc/MC_JsonG.tla mc/Trace_JsonG.tla harness/src/eng_json.rs",
          "serves_properties": ["C13"],
          "kind_free_text": "TLC exhaustive Encode/Decode round trip on the document model + trace validation of real round trips (text re-read by an independent reader and decoded by the specification)"}


def plan(prop, tier, seed, t0):
    from plans import run_plan, COMMON_ASSUME
    q = tier == "quick"
    M = dict(module="MC_JsonG.tla", workers=6)
    A = ("B1", "B2", "B3")          # vacuity (every build action taken) is checked on the small config only: -coverage slows TLC down
    mcs = [dict(name="struct", cfg="MC_JsonG_q.cfg" if q else "MC_JsonG_t2.cfg", timeout=900 if q else 3000, **M),
           dict(name="scalars", cfg="MC_JsonG_sc.cfg", timeout=900, actions=A, **M),
           # documents in other writers' shapes on the transcription: hadamard-typed edges decode to g, one more (parallel) edge
           # decodes to what the multigraph denotes (audit #24)
           dict(name="foreign", cfg="MC_JsonG_f.cfg" if q else "MC_JsonG_ft.cfg", timeout=900 if q else 3000, **M)]
    if not q:
        mcs += [dict(name="struct3", cfg="MC_JsonG_t.cfg", timeout=3000, **M),
                dict(name="hbox", cfg="MC_JsonG_h.cfg", timeout=3000, **M)]
    T = dict(module="Trace_JsonG.tla", cfg="Trace_JsonG.cfg", shards=6)
    traces = [
        dict(name="fam", engine="json", args=["--named", "--fam", "k=2,tys=ZX,phs=01247,ets=NH,nb=2,bb=1",
                                              "--fam", "k=3,tys=ZX,phs=014,ets=NH,nb=1,bb=1", "--stride", 60 if q else 6], **T),
        dict(name="rand", engine="json", args=["--random", 1500 if q else 20000, "--rand", "maxsp=7,maxb=4",
                                               "--big", 150 if q else 1500, "--api", 300 if q else 3000], **T),
    ]
    assume = COMMON_ASSUME + [
        "the harness's projection of the emitted JSON text (own phase-string and scalar-field reader, harness/src/eng_json.rs) is what "
        "'another reader' understands; serde_json's parser is trusted for byte syntax",
        "floating-point clauses (inexact scalars) are decided by the harness at relative 1e-9 on complex doubles, not by TLC",
        "coordinates are multiples of 0.1 in [-5, 12]; phases have denominators in {1,2,3,4,8,16,256} or drawn from 1..256; scalars are sqrt2^p e^{i k pi/4}, "
        "generic elements of Z[omega] scaled by powers of two, 0 and 1",
    ]

    def extra(stats, groups):
        return {"uncovered": ["last-bit float accuracy of coordinates / float factor through serde_json",
                              "boolean variables on spiders (not encoded at all by the format code), W nodes, Z-box labels",
                              "documents written by other tools are sampled (harness-written in their shapes), not exhausted; real pyzx output "
                              "files are not part of the corpus"],
                "scalar_exact_means": "equal ring element and approx flag not newly set (Scalar4 ==)",
                "foreign_input": {"judged_as": "a text / scalar document / diagram document of another writer that denotes a value decodes to "
                                               "exactly that value or to an error (ForeignPhase, PhaseOptions, ForeignScalar, IsoPost/DenPost of "
                                               "`foreign` events); never more than that",
                                  "recorded_only": "texts that denote no rational ('1/0', 'pi/0', '1e400' panic in to_phase; '-' reads as -1), "
                                                   "is_unknown scalars (decoded as 1), boolean io flags on more than one wire (all collapse to "
                                                   "index 0), a scalar field next to parallel edges (replaces the fusion scalar, as in pyzx)"}}

    return run_plan(prop, tier, seed, t0, mcs, traces, "model_checking", assume,
                    "MC: every diagram of the family (<=2 spiders Z/X x 4 (thorough: 5) phases x both edge types x <=2 boundaries on N/H wires x optional "
                    "boundary-boundary wire; thorough: 3 spiders, and H-boxes with all 8 phases) x coordinate layouts, and a small family x 10 "
                    "scalars x 3 layouts: NoPanicRT, DocOK, RoundTripIso, RoundTripDen, ScalarRT, DecodeOrder, IsoAgree, IsoSharp on the "
                    "specification; ForeignTypedH / ForeignParallel (the transcribed decoder on hadamard-typed and parallel edges); TRACE: one execution = one decorated diagram pushed through 4 round trips (encode/decode vec, hash, serde "
                    "hash, file); every round trip decided in TLC by NoError, IsoPost, DenPost, DocWF, DocMeansPre, ScalarExact / ScalarClose; "
                    "non-trivial = round trips of a non-empty diagram or a scalar other than 1; API events (--api): phase texts of other "
                    "writers by shape (ForeignPhase), from_phase under caller-chosen PhaseOptions (PhaseOptions), the four scalar conversion impls "
                    "(ScalarExact / ScalarClose), hand-written scalar documents (ForeignScalar) and whole foreign-shaped documents (IsoPost / "
                    "DenPost incl. parallel edges against Den of the multigraph)",
                    extra_cov_fn=extra)
