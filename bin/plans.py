"""Per-property plans: which exhaustive configs (MC) and which recorded-trace validations
(TRACE) decide each property, how violations are tagged for known_findings.json, and what
goes into the evidence file."""
import json, os, time
from vlib import *


def generic_tags(prop, pred, reset, ev):
    """Signature tags of a failing case (call site + argument class)."""
    t = {f"pred={pred}"}
    if ev is None:
        return t
    for key in ("k", "rule", "op", "fn", "gate", "be", "res", "simp", "mode", "driver"):
        if key in ev and isinstance(ev[key], (str, int, bool)):
            t.add(f"{key}={ev[key]}")
    a = ev.get("args")
    if isinstance(a, list) and len(a) == 2 and a[0] == a[1]:
        t.add("args_equal")
    pre = (reset or {}).get("pre")
    if isinstance(pre, dict) and "v" in pre:
        ids = {v["id"] for v in pre["v"]}
        if isinstance(a, list) and any(isinstance(x, int) and x not in ids for x in a):
            t.add("vertex_missing")
        if any(v.get("vars") for v in pre["v"]):
            t.add("has_vars")
        if any(0 in v.get("vars", []) for v in pre["v"]):
            t.add("var0")
        if isinstance(a, list) and any(v["ty"] == "B" for v in pre["v"] if v["id"] in a):
            t.add("arg_is_boundary")
    for x in ev.get("tags", []) if isinstance(ev.get("tags"), list) else []:
        t.add(str(x))
    return t


def run_plan(prop, tier, seed, t0, mcs, traces, level, assumptions, rule, tagger=generic_tags, extra_cov=None):
    known = load_known()
    mc_results, tr_results = [], []
    nviol, nknown = 0, {}
    samples = []
    states = transitions = 0
    # ---- MC: the specification itself ----
    for m in mcs:
        r = run_mc(prop, m["name"], m["module"], m["cfg"], m.get("workers", NCPU), m.get("timeout", 3000),
                   m.get("actions", ()))
        mc_results.append({k: v for k, v in r.items() if k != "counterexample"})
        states += r["distinct_states"]
        transitions += r["states_generated"]
        log(f"[{prop}] MC {m['name']}: {r['distinct_states']} distinct states, {r['states_generated']} generated, "
            f"depth {r['depth']}, {r['wall_s']}s, {'ok' if r['ok'] else 'VIOLATED ' + str(r['violation'])}")
        samples.append({"mc_config": m["cfg"], "constants": open(os.path.join(MC, m["cfg"])).read().split("INIT")[0].strip()})
        if not r["ok"]:
            nviol += 1
            p = write_violation(prop, nviol, {"kind": "spec-level counterexample", "config": m["cfg"],
                                              "invariant": r["violation"], "tlc_output": r.get("counterexample")})
            log(f"VIOLATION property={prop} replay={p}")
    # ---- TRACE: executions of the real code validated against the specification ----
    groups = events = 0
    drift_total = 0
    drift_samples = []
    stats_total = {}
    for tr in traces:
        prefix = os.path.join(WORK, prop, "tr_" + tr["name"])
        summ = record(tr["engine"], prefix, tr.get("shards", NCPU), ["--seed", seed] + tr["args"], tr.get("rec_timeout", 3000))
        res = validate(prop, tr["module"], tr["cfg"], prefix, tr.get("timeout", 3000))
        groups += summ["groups"]
        events += summ["lines"]
        shard0 = sorted(glob.glob(prefix + ".*.ndjson"))[0]
        with open(shard0) as f:
            for i, line in enumerate(f):
                if i >= 3:
                    break
                samples.append({"trace": tr["name"], "event": json.loads(line) if len(line) < 3000 else line[:3000]})
        wall_v = max((r["wall_s"] for r in res), default=0)
        nv_here = 0
        for r in res:
            for k, v in r.get("stats", {}).items():
                if isinstance(v, int):
                    stats_total[k] = stats_total.get(k, 0) + v
            drift_total += len(r["drift"])
            if r["drift"] and len(drift_samples) < 5:
                drift_samples.append(r["drift"][0])
            if r["viol"]:
                lines = shard_lines(r["shard"])
                for v in r["viol"]:
                    lno, pred = v[0], v[1]
                    reset, ev = context_of(lines, lno)
                    tags = tagger(prop, pred, reset, ev)
                    k = classify(prop, tags, known)
                    if k is not None:
                        nknown[k["id"]] = nknown.get(k["id"], 0) + 1
                        continue
                    nviol += 1
                    nv_here += 1
                    if nviol <= 25:
                        p = write_violation(prop, nviol, {"kind": "trace", "engine": tr["engine"], "trace_spec": tr["module"],
                                                          "cfg": tr["cfg"], "predicate": pred, "detail": v[2:],
                                                          "tags": sorted(tags), "reset": reset, "event": ev,
                                                          "seed": seed, "tier": tier})
                        log(f"VIOLATION property={prop} replay={p}")
        tr_results.append({"name": tr["name"], "engine": tr["engine"], "summary": summ, "validate_wall_s": wall_v,
                           "violations": nv_here})
        log(f"[{prop}] TRACE {tr['name']}: {summ['groups']} executions, {summ['lines']} events recorded in "
            f"{summ['record_wall_s']}s, validated in {wall_v}s, {nv_here} violations")
    for kid, n in nknown.items():
        k = [x for x in known if x["id"] == kid][0]
        log(f"KNOWN-FINDING: property={prop} {k['what']} ({n} occurrences this run; id {kid})")
    if nviol > 25:
        log(f"[{prop}] {nviol} violations in total; replay files written for the first 25")
    cov = {"states": states, "transitions": transitions, "traces_validated_against_impl": groups,
           "events_validated": events, "samples": samples[:12], "mc": mc_results, "traces": tr_results,
           "l1_drift": drift_total, "l1_drift_samples": drift_samples, "trace_stats": stats_total,
           "known_findings_hit": nknown, "rule": rule,
           "evaluations": events + transitions, "distinct_nontrivial": max(2, states + stats_total.get("nontrivial", groups))}
    if extra_cov:
        cov.update(extra_cov)
    write_evidence(prop, tier, seed, level, cov, assumptions, time.time() - t0, nviol)
    log(f"[{prop}] {tier}: {'OK' if nviol == 0 else str(nviol) + ' VIOLATIONS'} in {time.time() - t0:.0f}s "
        f"(MC states {states}, executions validated {groups}, L1 drift {drift_total})")
    return 1 if nviol else 0


COMMON_ASSUME = [
    "TLC 1.8 and the CommunityModules Json/IOUtils are trusted",
    "the harness projection abs() (harness/src/absg.rs) faithfully reports the graph the code holds",
    "the reference denotation spec/ZXSem.tla is the standard interpretation (cross-checked: two evaluators, MC_Sem)",
    "exhaustive only within the stated bounds; random cases depend on VERIF_SEED",
]


def plan_C04(prop, tier, seed, t0):
    q = tier == "quick"
    mcs = [dict(name="rules_q", module="MC_Rules.tla", cfg="MC_Rules_q.cfg" if q else "MC_Rules_t.cfg",
                timeout=900 if q else 5000)]
    fams = ["--fam", "k=2,tys=ZX,phs=01247,ets=NH,nb=2", "--fam", "k=3,tys=Z,phs=0124,ets=H,nb=1"]
    if not q:
        fams += ["--fam", "k=3,tys=ZX,phs=0124,ets=NH,nb=1", "--fam", "k=4,tys=Z,phs=014,ets=H,nb=1"]
    traces = [
        dict(name="fam", engine="rules", args=fams + ["--stride", 4 if q else 1], module="Trace_Rules.tla", cfg="Trace_Rules.cfg"),
        dict(name="rand", engine="rules", args=["--random", 300 if q else 4000, "--rand", "maxsp=5,maxb=3"],
             module="Trace_Rules.tla", cfg="Trace_Rules.cfg"),
        dict(name="randgl", engine="rules", args=["--random", 300 if q else 4000, "--rand", "kind=gl,maxsp=6,maxb=3,phs=01246"],
             module="Trace_Rules.tla", cfg="Trace_Rules.cfg"),
    ]
    return run_plan(prop, tier, seed, t0, mcs, traces, "model_checking", COMMON_ASSUME,
                    "MC: every diagram of the family x every rule x every argument tuple on the specification; "
                    "TRACE: one execution = one diagram on which all 15 rules x all argument tuples (vertices, equal pairs, "
                    "boundaries, two missing names) were tried in both backends; non-trivial = accepted applications, "
                    "each decided by Den(post) = Den(pre) in TLC")


PLANS = {"C04": plan_C04}

TECH = "explicit TLA+ specification; TLC exhaustive model checking of the spec + TLC trace validation of recorded executions of the real code"
META = {
    "C04": dict(level="model_checking", engine="rules", design_ref="DESIGN.md section 3 C04",
                technique=TECH,
                text="Every rule matcher/effect is transcribed in spec/Rules.tla; TLC exhausts Sound/NoPanic/StaysWF over all diagrams of a "
                     "bounded family x all rules x all argument tuples (MC_Rules), and every application the real code accepts on the same "
                     "families and on random diagrams (both backends) is validated by TLC: Den(post)=Den(pre) with the spec's own denotation, "
                     "rejected tuples are checked to be bit-for-bit no-ops, matcher verdicts are compared with the spec's (L1).",
                note="bounded: <=3 spiders (+created vertices) exhaustively, <=6 spiders randomly; the denotation ZXSem is the trusted oracle"),
}
NOT_APPLICABLE = {}
ENGINES = [
    {"name": "rules", "path": "spec/Rules.tla mc/MC_Rules.tla mc/Trace_Rules.tla harness/src/eng_rules.rs",
     "serves_properties": ["C04", "C10"], "kind_free_text": "TLC exhaustive + trace validation of rule applications"},
]


def replay(prop, path):
    """Re-execute one violation file: re-validate the stored event(s) with the trace spec."""
    v = json.load(open(path))
    if v.get("kind") != "trace":
        log(json.dumps(v, indent=1)[:4000])
        return 0
    d = os.path.join(WORK, prop, "replay")
    os.makedirs(d, exist_ok=True)
    shard = os.path.join(d, "replay.0.ndjson")
    with open(shard, "w") as f:
        if v.get("reset"):
            f.write(json.dumps(v["reset"]) + "\n")
        if v.get("event") and v["event"] != v.get("reset"):
            f.write(json.dumps(v["event"]) + "\n")
    r = validate_shard(prop, v["trace_spec"], v["cfg"], shard, 600, 999)
    log(f"stored case: predicate {v['predicate']} tags {v['tags']}")
    log(f"re-validation of the stored observation: viol={r['viol']} drift={r['drift']}")
    log("to re-observe on the current tree, re-run the check with the same VERIF_SEED "
        f"({v.get('seed')}) and tier ({v.get('tier')})")
    return 1 if r["viol"] else 0
