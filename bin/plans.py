"""Per-property plans: which exhaustive configs (MC) and which recorded-trace validations
(TRACE) decide each property, how violations are tagged for known_findings.json, and what
goes into the evidence file."""
import json, os, time
from vlib import *


def generic_tags(prop, pred, reset, ev):
    """Signature tags of a failing case (call site + argument class)."""
    t = {f"pred={pred}"}
    if ev is None:
        return t
    for key in ("k", "rule", "op", "fn", "gate", "be", "res", "simp", "mode", "driver"):
        if key in ev and isinstance(ev[key], (str, int, bool)):
            t.add(f"{key}={ev[key]}")
    a = ev.get("args")
    if isinstance(a, list) and len(a) == 2 and a[0] == a[1]:
        t.add("args_equal")
    pre = (reset or {}).get("pre")
    if isinstance(pre, dict) and "v" in pre:
        ids = {v["id"] for v in pre["v"]}
        if isinstance(a, list) and any(isinstance(x, int) and x not in ids for x in a):
            t.add("vertex_missing")
        if any(v.get("vars") for v in pre["v"]):
            t.add("has_vars")
        if any(0 in v.get("vars", []) for v in pre["v"]):
            t.add("var0")
        if isinstance(a, list) and any(v["ty"] == "B" for v in pre["v"] if v["id"] in a):
            t.add("arg_is_boundary")
    if reset and reset.get("k") == "pair":
        def bb(g, which):
            bs = set(g[which])
            return any(e["u"] in bs and e["w"] in bs for e in g["e"])
        if bb(reset["h"], "ins"):
            t.add("cap_in_other")
        if bb(reset["g"], "outs"):
            t.add("cup_in_self")
    if reset and reset.get("k") == "circ" and not reset["c"]["gates"]:
        t.add("zero_gates")
    if reset and "how" in reset:
        t.add(f"how={reset['how']}")
    for x in ev.get("tags", []) if isinstance(ev.get("tags"), list) else []:
        t.add(str(x))
    return t


def run_plan(prop, tier, seed, t0, mcs, traces, level, assumptions, rule, tagger=generic_tags, extra_cov=None, extra_cov_fn=None, famchecks=()):
    known = load_known()
    # binding of the INPUT families: what TLC builds from spec/Family.tla = what the harness enumerates (set equality; a
    # disagreement is an error of the machinery, exit 2, never a verdict)
    fam_results = [circuit_family_agreement(prop, *fc[1:]) if fc[0] == "circ" else family_agreement(prop, *fc) for fc in famchecks]
    mc_results, tr_results = [], []
    nviol, nknown = 0, {}
    samples = []
    states = transitions = 0
    # ---- MC: the specification itself ----
    for m in mcs:
        r = run_mc(prop, m["name"], m["module"], m["cfg"], m.get("workers", NCPU), m.get("timeout", 3000),
                   m.get("actions", ()))
        mc_results.append({k: v for k, v in r.items() if k != "counterexample"})
        states += r["distinct_states"]
        transitions += r["states_generated"]
        log(f"[{prop}] MC {m['name']}: {r['distinct_states']} distinct states, {r['states_generated']} generated, "
            f"depth {r['depth']}, {r['wall_s']}s, {'ok' if r['ok'] else 'VIOLATED ' + str(r['violation'])}")
        samples.append({"mc_config": m["cfg"], "constants": open(os.path.join(MC, m["cfg"])).read().split("INIT")[0].strip()})
        if not r["ok"]:
            nviol += 1
            p = write_violation(prop, nviol, {"kind": "spec-level counterexample", "config": m["cfg"],
                                              "invariant": r["violation"], "tlc_output": r.get("counterexample")})
            log(f"VIOLATION property={prop} replay={p}")
    # ---- TRACE: executions of the real code validated against the specification ----
    groups = events = 0
    drift_total = 0
    replayed = {"behaviours": 0, "mismatch": 0}
    drift_samples = []
    stats_total = {}
    for tr in traces:
        prefix = os.path.join(WORK, prop, "tr_" + tr["name"])
        tr_args = list(tr["args"])
        if tr.get("from_mc"):
            # specification -> implementation: the behaviours this trace executes are printed by TLC from an exhaustive config
            fm = tr["from_mc"]
            hist_file = os.path.join(WORK, prop, "mc_" + tr["name"] + ".ndjson")
            r = mc_emit(prop, fm["name"], fm["module"], fm["cfg"], hist_file, fm.get("workers", NCPU), fm.get("timeout", 3000))
            mc_results.append({k: v for k, v in r.items() if k != "counterexample"})
            states += r["distinct_states"]
            transitions += r["states_generated"]
            log(f"[{prop}] MC {fm['name']}: {r['distinct_states']} distinct states, {r['emitted']} behaviours emitted for replay, "
                f"{r['wall_s']}s, {'ok' if r['ok'] else 'VIOLATED ' + str(r['violation'])}")
            if not r["ok"]:
                nviol += 1
                p = write_violation(prop, nviol, {"kind": "spec-level counterexample", "config": fm["cfg"],
                                                  "invariant": r["violation"], "tlc_output": r.get("counterexample")})
                log(f"VIOLATION property={prop} replay={p}")
                continue
            tr_args += ["--from-tlc", hist_file]
        try:
            summ = record(tr["engine"], prefix, tr.get("shards", 2 * NCPU), ["--seed", seed] + tr_args, tr.get("rec_timeout", 3000))
        except CodeCrash as cc:
            nviol += 1
            pth = write_violation(prop, nviol, {"kind": "crash", "predicate": "NoCrash", "engine": cc.engine, "exit_status": cc.rc,
                                                "recorder_args": cc.rec_args, "stderr_tail": cc.stderr, "seed": seed, "tier": tier,
                                                "what": "the recorder process was killed by a fatal signal raised in the code under test "
                                                        "(stack overflow / abort / segmentation fault); re-run `qxv record <engine> <args>` to reproduce"})
            log(f"VIOLATION property={prop} replay={pth}")
            tr_results.append({"name": tr["name"], "engine": tr["engine"], "summary": {"groups": 0, "lines": 0, "crashed": True}, "validate_wall_s": 0, "violations": 1})
            continue
        # registry for bin/selftest.py (which trace spec reads which recorded file)
        with open(os.path.join(WORK, prop, "tr_" + tr["name"] + ".spec.json"), "w") as f:
            json.dump({"module": tr["module"], "cfg": tr["cfg"], "engine": tr["engine"], "prefix": prefix}, f)
        res = validate(prop, tr["module"], tr["cfg"], prefix, tr.get("timeout", 3000))
        groups += summ["groups"]
        events += summ["lines"]
        if tr.get("from_mc"):
            # behaviours whose final state in the real code differs from the state the specification predicted (L1, never a verdict by itself)
            mism = int((summ.get("detail") or {}).get("replay_mismatch", 0))
            replayed["behaviours"] += summ["groups"]
            replayed["mismatch"] += mism
            drift_total += mism
            if mism and len(drift_samples) < 5:
                drift_samples.append(["replay_mismatch", (summ.get("detail") or {}).get("first_mismatch")])
        shard0 = sorted(glob.glob(prefix + ".*.ndjson"))[0]
        with open(shard0) as f:
            for i, line in enumerate(f):
                if i >= 3:
                    break
                samples.append({"trace": tr["name"], "event": json.loads(line) if len(line) < 3000 else line[:3000]})
        wall_v = max((r["wall_s"] for r in res), default=0)
        nv_here = 0
        for r in res:
            for k, v in r.get("stats", {}).items():
                if isinstance(v, int):
                    stats_total[k] = stats_total.get(k, 0) + v
            drift_total += len(r["drift"])
            if r["drift"] and len(drift_samples) < 5:
                drift_samples.append(r["drift"][0])
            if r["viol"]:
                lines = shard_lines(r["shard"])
                for v in r["viol"]:
                    lno, pred = v[0], v[1]
                    reset, ev = context_of(lines, lno)
                    tags = tagger(prop, pred, reset, ev)
                    k = classify(prop, tags, known)
                    if k is not None:
                        nknown[k["id"]] = nknown.get(k["id"], 0) + 1
                        continue
                    nviol += 1
                    nv_here += 1
                    if nviol <= 25:
                        p = write_violation(prop, nviol, {"kind": "trace", "engine": tr["engine"], "trace_spec": tr["module"],
                                                          "cfg": tr["cfg"], "predicate": pred, "detail": v[2:],
                                                          "tags": sorted(tags), "reset": reset, "event": ev,
                                                          "seed": seed, "tier": tier})
                        log(f"VIOLATION property={prop} replay={p}")
        tr_results.append({"name": tr["name"], "engine": tr["engine"], "summary": summ, "validate_wall_s": wall_v,
                           "violations": nv_here})
        log(f"[{prop}] TRACE {tr['name']}: {summ['groups']} executions, {summ['lines']} events recorded in "
            f"{summ['record_wall_s']}s, validated in {wall_v}s, {nv_here} violations")
    for kid, n in nknown.items():
        k = [x for x in known if x["id"] == kid][0]
        log(f"KNOWN-FINDING: property={prop} {k['what']} ({n} occurrences this run; id {kid})")
    if nviol > 25:
        log(f"[{prop}] {nviol} violations in total; replay files written for the first 25")
    cov = {"states": states, "transitions": transitions, "traces_validated_against_impl": groups,
           "events_validated": events, "samples": samples[:12], "mc": mc_results, "traces": tr_results,
           "l1_drift": drift_total, "l1_drift_samples": drift_samples, "trace_stats": stats_total,
           "known_findings_hit": nknown, "rule": rule,
           "evaluations": events + transitions, "distinct_nontrivial": max(2, states + stats_total.get("nontrivial", groups))}
    if fam_results:
        cov["input_family_agreement"] = fam_results
    if replayed["behaviours"]:
        cov["spec_behaviours_replayed_in_impl"] = replayed["behaviours"]
        cov["spec_behaviours_replay_mismatch"] = replayed["mismatch"]
    if extra_cov:
        cov.update(extra_cov)
    if extra_cov_fn:
        cov.update(extra_cov_fn(stats_total, groups))
    write_evidence(prop, tier, seed, level, cov, assumptions, time.time() - t0, nviol)
    log(f"[{prop}] {tier}: {'OK' if nviol == 0 else str(nviol) + ' VIOLATIONS'} in {time.time() - t0:.0f}s "
        f"(MC states {states}, executions validated {groups}, L1 drift {drift_total})")
    return 1 if nviol else 0


COMMON_ASSUME = [
    "TLC 1.8 and the CommunityModules Json/IOUtils are trusted",
    "the harness projection abs() (harness/src/absg.rs) faithfully reports the graph the code holds",
    "the reference denotation spec/ZXSem.tla is the standard interpretation (cross-checked: two evaluators, MC_Sem)",
    "exhaustive only within the stated bounds; random cases depend on VERIF_SEED",
]


def plan_C04(prop, tier, seed, t0):
    q = tier == "quick"
    mcs = [dict(name="rules_q", module="MC_Rules.tla", cfg="MC_Rules_q.cfg" if q else "MC_Rules_t.cfg",
                timeout=3000 if q else 9000)]
    fams = ["--fam", "k=2,tys=ZX,phs=01247,ets=NH,nb=2", "--fam", "k=3,tys=Z,phs=0124,ets=H,nb=1"]
    if not q:
        fams += ["--fam", "k=3,tys=ZX,phs=0124,ets=NH,nb=1", "--fam", "k=4,tys=Z,phs=014,ets=H,nb=1"]
    traces = [
        dict(name="fam", engine="rules", args=fams + ["--stride", 4 if q else 1], module="Trace_Rules.tla", cfg="Trace_Rules.cfg"),
        # Z spiders only, BOTH edge types (seed C04_e: a rule whose matcher looks at the legs of ITS vertex only, applied where two neighbours are
        # joined by a plain edge - diagrams that are neither graph-like nor ever produced by the library's own simplifiers, but well-formed)
        dict(name="fam_zn", engine="rules", args=["--fam", "k=3,tys=Z,phs=024,ets=NH,nb=1", "--stride", 4 if q else 1],
             module="Trace_Rules.tla", cfg="Trace_Rules.cfg"),
        dict(name="rand", engine="rules", args=["--random", 300 if q else 4000, "--rand", "maxsp=5,maxb=3"],
             module="Trace_Rules.tla", cfg="Trace_Rules.cfg"),
        dict(name="randgl", engine="rules", args=["--random", 300 if q else 4000, "--rand", "kind=gl,maxsp=6,maxb=3,phs=01246"],
             module="Trace_Rules.tla", cfg="Trace_Rules.cfg"),
        # phases that are not multiples of pi/4 (every rule x argument tuple; float reference evaluator; SoundFloat / RejectIsNoopFloat)
        dict(name="generic", engine="rules", args=["--generic", 300 if q else 3000], shards=max(2, NCPU // 2),
             module="Trace_Rules.tla", cfg="Trace_Rules.cfg"),
    ]
    return run_plan(prop, tier, seed, t0, mcs, traces, "model_checking", COMMON_ASSUME,
                    "MC: every diagram of the family x every rule x every argument tuple on the specification; "
                    "TRACE: one execution = one diagram on which all 15 rules x all argument tuples (vertices, equal pairs, "
                    "boundaries, two missing names) were tried in both backends; non-trivial = accepted applications, "
                    "each decided by Den(post) = Den(pre) in TLC"
                    "; GENERIC: the clause 'to floating-point tolerance' - seeded inputs whose phases are NOT multiples of pi/4 (n/d, d in 3,5,6,7,8,12,16; float-approximate scalars): the harness compares with its independent float reference evaluator (harness/src/refeval.rs, validated entry by entry against the exact Den / CircSem by Trace_Tensor!RefEvalOK in the C08 check) at 1e-9 and logs booleans, TLC judges them",
                    famchecks=[("a", "MC_Family_a.cfg", "k=2,tys=ZX,phs=01247,ets=NH,nb=2"), ("bb", "MC_Family_bb.cfg", "k=1,tys=ZX,phs=01,ets=NH,nb=1,bb=1"),
                               ("z3", "MC_Family_z3.cfg", "k=3,tys=Z,phs=02,ets=H,nb=1")])


def plan_C01(prop, tier, seed, t0):
    q = tier == "quick"
    mcs = [dict(name="simp", module="MC_Simp.tla", cfg="MC_Simp_q.cfg" if q else "MC_Simp_t.cfg", timeout=3000 if q else 9000),
           dict(name="simp_live", module="MC_Simp.tla", cfg="MC_Simp_live_q.cfg" if q else "MC_Simp_live.cfg", timeout=3000 if q else 9000)]
    T = dict(module="Trace_Simp.tla", cfg="Trace_Simp.cfg")
    traces = [
        dict(name="fam", engine="simp", args=["--fam", "k=3,tys=ZX,phs=0124,ets=NH,nb=1", "--fam", "k=2,tys=ZX,phs=01247,ets=NH,nb=2,bb=1",
                                              "--stride", 16 if q else 1], **T),
        dict(name="rand", engine="simp", args=["--random", 300 if q else 5000, "--rand", "maxsp=6,maxb=3"], **T),
        dict(name="randgl", engine="simp", args=["--random", 300 if q else 5000, "--rand", "kind=gl,maxsp=6,maxb=3,gadgets=3"], **T),
        # hook H3: every rule application of 11 simplifiers, each validated as a step of spec/Simp.tla from the previous recorded diagram
        dict(name="steps_fam", engine="simp", args=["--steps", "--fam", "k=2,tys=ZX,phs=0124,ets=NH,nb=2,bb=1", "--stride", 80 if q else 8], **T),
        dict(name="steps_rand", engine="simp", args=["--steps", "--random", 120 if q else 2500, "--rand", "kind=gl,maxsp=6,maxb=3,gadgets=3"], **T),
        # phases that are not multiples of pi/4 (all 15 simplifiers, both backends; float reference evaluator; SoundFloat)
        dict(name="generic", engine="simp", args=["--generic", 1000 if q else 8000], shards=max(2, NCPU // 2), **T),
    ]
    return run_plan(prop, tier, seed, t0, mcs, traces, "model_checking", COMMON_ASSUME,
                    "MC: every firing order of the full_simp rule set (superset of every strategy) from every diagram of the family, "
                    "Sound/NoPanic/StaysWF in every state, termination under weak fairness; TRACE: one execution = one diagram on which "
                    "all 15 pub simplifiers ran in both backends under a 20 s watchdog; non-trivial = runs that changed the diagram, "
                    "each decided by Den(post) = Den(pre) in TLC; STEPS (hook H3): every single rule application / pack / x_to_z / gadget batch "
                    "step made by 11 simplifiers is logged with the diagram after it and checked to be a step of spec/Simp.tla from the "
                    "previously logged diagram (matcher true, Apply of that rule with those arguments incl. exact scalar, rule in the strategy's "
                    "set, returned diagram = last step): the real schedule is a path of the transition relation MC_Simp explores (L1)"
                    "; GENERIC: the clause 'to floating-point tolerance' - seeded inputs whose phases are NOT multiples of pi/4 (n/d, d in 3,5,6,7,8,12,16; float-approximate scalars): the harness compares with its independent float reference evaluator (harness/src/refeval.rs, validated entry by entry against the exact Den / CircSem by Trace_Tensor!RefEvalOK in the C08 check) at 1e-9 and logs booleans, TLC judges them",
                    extra_cov_fn=lambda st, groups: {"rule_applications_validated": st.get("steps", 0), "rule_applications_conforming": st.get("steps_ok", 0)})


def plan_C10(prop, tier, seed, t0):
    q = tier == "quick"
    mcs = [dict(name="rules_v", module="MC_Rules.tla", cfg="MC_Rules_v.cfg", timeout=3000),
           dict(name="simp_v", module="MC_Simp.tla", cfg="MC_Simp_v.cfg", timeout=3000)]
    if not q:
        mcs.append(dict(name="rules_v3", module="MC_Rules.tla", cfg="MC_Rules_v3.cfg", timeout=5000))
    R = dict(module="Trace_Rules.tla", cfg="Trace_Rules.cfg")
    S = dict(module="Trace_Simp.tla", cfg="Trace_Simp.cfg")
    C = dict(module="Trace_Circ.tla", cfg="Trace_Circ.cfg")
    traces = [
        dict(name="rules_fam", engine="rules", args=["--fam", "k=2,tys=ZX,phs=0146,ets=NH,nb=1,vars=01", "--fam", "k=3,tys=Z,phs=014,ets=H,nb=1,vars=0",
                                                     "--stride", 8 if q else 1], **R),
        dict(name="rules_rand", engine="rules", args=["--random", 150 if q else 4000, "--rand", "kind=gl,maxsp=4,maxb=2,phs=01246,vars=012,pvar=0.35,gadgets=1"], **R),
        dict(name="rules_rand_zx", engine="rules", args=["--random", 150 if q else 3000, "--rand", "maxsp=4,maxb=2,vars=012,pvar=0.35"], **R),
        dict(name="simp_rand", engine="simp", args=["--random", 250 if q else 4000, "--rand", "kind=gl,maxsp=6,maxb=2,phs=01246,vars=012,pvar=0.3,gadgets=3"], **S),
        dict(name="simp_rand_zx", engine="simp", args=["--random", 150 if q else 3000, "--rand", "maxsp=5,maxb=2,vars=012,pvar=0.3"], **S),
        dict(name="simp_steps", engine="simp", args=["--steps", "--random", 60 if q else 1200, "--rand", "kind=gl,maxsp=6,maxb=2,phs=01246,vars=012,pvar=0.3,gadgets=3"], **S),
        # --vars: every circuit with a measurement also with EXPLICIT outcome variables (own / one shared / explicit+fresh mixed / parities /
        # numbering gap) and as QASM text with `measure q[i] -> c[j];`; --meas-boost: 1..3 further measurements per random circuit;
        # --direct-every: Gate::add_to_graph driven by the caller (own qubit map, own first fresh variable)
        dict(name="measure", engine="tograph", args=["--enum", "2,2,small", "--random", 100 if q else 2500, "--alphabet", "all", "--maxq", 3, "--maxlen", 7,
                                                     "--stride", 3 if q else 1, "--vars", "--meas-boost", "--direct-every", 5], **C),
        # docs/api_audit.md #20: plug / append / adjoint / x_to_z / basis plugging / copy / sub-graph on diagrams with variables and conditional factors
        dict(name="compose_v", engine="compose", module="Trace_Compose.tla", cfg="Trace_Compose.cfg",
             args=["--fam", "k=1,tys=ZX,phs=014,ets=NH,nb=2,vars=01", "--random", 150, "--rand", "maxsp=4,maxb=3,vars=012,pvar=0.35", "--sf",
                   "--pairs", 150 if q else 3000]),
    ]
    return run_plan(prop, tier, seed, t0, mcs, traces, "model_checking", COMMON_ASSUME,
                    "as C04/C01/C02 with boolean variables (including variable 0) on spiders: soundness is DenV(post) = DenV(pre), i.e. "
                    "equality of the denotation under EVERY assignment, instantiation done by the specification (Inst) from the logged "
                    "vars and scalar factors; circuits with measure / measure-reset are compared with the projected map per outcome",
                    famchecks=[("v", "MC_Family_v.cfg", "k=2,tys=ZX,phs=014,ets=NH,nb=1,vars=01")])


def plan_C02(prop, tier, seed, t0):
    q = tier == "quick"
    mcs = [dict(name="tograph", module="MC_ToGraph.tla", cfg="MC_ToGraph_q.cfg" if q else "MC_ToGraph_t.cfg", timeout=3000 if q else 9000),
           dict(name="ccz", module="MC_Circ.tla", cfg="MC_Circ_tr.cfg", timeout=3000)]
    C = dict(module="Trace_Circ.tla", cfg="Trace_Circ.cfg")
    traces = [
        dict(name="enum", engine="tograph", args=["--enum", "2,2,all" if q else "2,3,small", "--enum", "3,1,ccz" if q else "3,2,ccz", "--enum", "1,3,small",
                                                  "--stride", 3 if q else 1], **C),
        # --direct-every K: every K-th circuit also through the public Gate::add_to_graph with a caller-owned, permuted qubit map;
        # --unknown-every K: every K-th circuit also with an UnknownGate inserted (recorded in stats, not judged)
        dict(name="rand", engine="tograph", args=["--random", 250 if q else 4000, "--alphabet", "all", "--maxq", 3, "--maxlen", 8,
                                                  "--direct-every", 10 if q else 5, "--unknown-every", 16 if q else 8], **C),
        dict(name="rand4", engine="tograph", args=["--random", 40 if q else 400, "--alphabet", "unitary", "--maxq", 4, "--maxlen", 10], **C),
        # ancilla initialisations in front of several still-open inputs, post-selections behind several still-open outputs, on 3-4 qubits, in
        # every order (seed C02_e: the ORDER of the remaining inputs / outputs)
        dict(name="anc", engine="tograph", args=["--random", 0, "--maxq", 4, "--anc-layouts", 60 if q else 1500], **C),
        # measurements with explicit outcome variables (shared, mixed with fresh ones, parities), also via QASM `measure` statements
        dict(name="vars", engine="tograph", args=["--random", 30 if q else 1500, "--alphabet", "all", "--maxq", 3, "--maxlen", 7, "--vars", "--meas-boost",
                                                  "--direct-every", 3], **C),
        # rz / rx / parity-phase angles that are not multiples of pi/4 (4 modes x 2 backends; float reference evaluators; TranslatedFloat)
        dict(name="generic", engine="tograph", args=["--generic", 400 if q else 3000], shards=max(2, NCPU // 2), **C),
    ]
    return run_plan(prop, tier, seed, t0, mcs, traces, "model_checking", COMMON_ASSUME,
                    "MC: the transcribed translation ToGraph vs the gate-matrix semantics CircSem for every circuit over the alphabet up to "
                    "the length bound (every prefix is a state), all measurement outcomes; TRACE: one execution = one circuit translated "
                    "by the real code in 4 modes (plain, simplify, post-selected CCZ, both) x 2 backends, plus the same translation driven gate by "
                    "gate through the public Gate::add_to_graph (caller-owned permuted qubit map, caller-chosen first fresh variable), circuits "
                    "whose measurements carry explicit variables (shared / mixed with fresh ones) and circuits handed over as QASM text with "
                    "measure statements; every translation of a non-empty circuit is non-trivial and decided by "
                    "Den(diagram) = CircSem(circuit) under every outcome assignment in TLC; circuits containing UnknownGate are only recorded"
                    "; GENERIC: the clause 'to floating-point tolerance' - seeded inputs whose phases are NOT multiples of pi/4 (n/d, d in 3,5,6,7,8,12,16; float-approximate scalars): the harness compares with its independent float reference evaluator (harness/src/refeval.rs, validated entry by entry against the exact Den / CircSem by Trace_Tensor!RefEvalOK in the C08 check) at 1e-9 and logs booleans, TLC judges them",
                    famchecks=[("circ", "s23", "MC_CircFamily_s23.cfg", "2,3,small")])


def plan_C15(prop, tier, seed, t0):
    q = tier == "quick"
    mcs = [dict(name="circ", module="MC_Circ.tla", cfg="MC_Circ_q.cfg" if q else "MC_Circ_t.cfg", timeout=3000 if q else 9000)]
    C = dict(module="Trace_Circ.tla", cfg="Trace_Circ.cfg")
    traces = [
        dict(name="enum", engine="circops", args=["--enum", "2,2,unitary", "--enum", "3,1,unitary", "--stride", 2 if q else 1], **C),
        dict(name="rand", engine="circops", args=["--random", 400 if q else 6000, "--alphabet", "unitary", "--maxq", 3, "--maxlen", 8], **C),
        dict(name="rand4", engine="circops", args=["--random", 60 if q else 1500, "--alphabet", "unitary", "--maxq", 4, "--maxlen", 10], **C),
    ]
    return run_plan(prop, tier, seed, t0, mcs, traces, "model_checking", COMMON_ASSUME,
                    "MC: adjoint inverts / expansion preserves / advertised count / concatenation composes for every circuit over the "
                    "alphabet up to the bound on the specification; TRACE: one execution = one circuit on which to_adjoint, "
                    "to_basic_gates, +, reverse, stats ran, and the rest of the public surface: + / += on operands with DIFFERENT qubit counts "
                    "(no composite: every overload must refuse), push_front / push_back, construction by name (add_gate family), "
                    "num_gates_of_type for every kind, CircuitStats::into_array / Display / make, in-place Circuit::adjoint and Gate::adjoint, "
                    "impl RowOps for Circuit (add_row / swap_rows mirrored against bitgauss's BitMatrix through the circuit's X-basis F2 map), "
                    "and reverse / adjoint / + / == / stats / to_basic_gates on the same gate sequence BUILT in five ways (push_back only, push_front in "
                    "reverse order, from the middle outwards, first gate last to the front, surplus gates popped off): the VecDeque is then wrapped "
                    "around its buffer end, in-place operations run on the built circuit, never on a clone; "
                    "each result is decided by exact CircSem equalities in TLC")


def plan_C08(prop, tier, seed, t0):
    q = tier == "quick"
    mcs = [dict(name="sem", module="MC_Sem.tla", cfg="MC_Sem.cfg" if q else "MC_Sem_t.cfg", timeout=3000 if q else 9000)]
    T = dict(module="Trace_Tensor.tla", cfg="Trace_Tensor.cfg")
    traces = [
        dict(name="fam", engine="tensor", args=["--fam", "k=2,tys=ZX,phs=01247,ets=NH,nb=2,bb=1", "--fam", "k=3,tys=ZX,phs=014,ets=NH,nb=1",
                                                "--stride", 3 if q else 1, "--compare"], **T),
        dict(name="rand", engine="tensor", args=["--random", 1500 if q else 30000, "--rand", "maxsp=7,maxb=4"], **T),
        dict(name="circ", engine="tensor", args=["--enum", "2,2,small" if q else "2,3,small", "--enum", "3,1,x", "--random-circuits", 300 if q else 6000], **T),
        # API-coverage additions (docs/api_audit.md #4, #5): comparison helpers in both number types, QubitOps, plug_n_qubits
        # size-dependent code paths: rayon / ndarray split their work by size (hadamard_at zips two halves of the tensor in
        # parallel, cphase_at / delta_at broadcast; tensor.rs itself has no size constant), so one width above every threshold
        # the code has must be exercised: 6- and 7-qubit circuits (4096 / 16384 entries) through Circuit::to_tensor4/f AND
        # to_graph().to_tensor4(), and direct hadamard_at / cphase_at / delta_at on ident(6) at the first, last and middle
        # index positions (--wide N circuits, every fifth on 7 qubits; --wide-ops N operation sequences)
        dict(name="api", engine="tensor", args=["--helpers", 1500 if q else 30000, "--objects", 160 if q else 3000, "--qops", 400 if q else 8000,
                                                "--plug", 200 if q else 4000, "--unsupported",
                                                "--wide", 45 if q else 400, "--wide7", "--wide-ops", 16 if q else 120], **T),
        # --ref: every header of this trace also carries the tensor of the harness's FLOAT reference evaluator (refeval.rs), which TLC
        # compares entry by entry with the exact Den / CircSem (RefEvalOK): the oracle of all generic-phase tiers is a checked artefact
        # (pi/4 family, random diagrams and circuits, plus pi/4 inputs of the shapes the generic tiers use); --generic N: diagrams and
        # circuits whose phases are not multiples of pi/4, to_tensorf and to_tensor4 against that oracle (FloatTensorOK, Tensor4FloatOK)
        dict(name="generic", engine="tensor", args=["--ref", "--fam", "k=2,tys=ZX,phs=01247,ets=NH,nb=2,bb=1", "--enum", "2,2,small", "--stride", 41 if q else 5,
                                                    "--random", 300 if q else 4000, "--rand", "maxsp=7,maxb=4", "--random-circuits", 150 if q else 2000,
                                                    "--generic", 400 if q else 4000], shards=NCPU, **T),
    ]
    return run_plan(prop, tier, seed, t0, mcs, traces, "model_checking", COMMON_ASSUME + [
                        "the float-typed comparison helpers cross-multiply in floating point: a 'proportional' verdict is only demanded where "
                        "float arithmetic is exact (Gaussian dyadic entries) or the tensors are equal; on diagrams / circuits (to_tensorf "
                        "rounds an exact 0 to 1e-16) the float verdicts are counted, not judged",
                        "plug_n_qubits is judged for `other` with exactly 2n indices; for other shapes it is wrong in the unchanged code "
                        "(switch PlugGeneral in mc/Trace_Tensor.tla, patch work/gD_fix_1.diff), counted in stats"],
                    "MC: the specification's two independent evaluators (sum over assignments / vertex elimination) agree on every diagram of "
                    "the family and are invariant under colour change; TRACE: one execution = one diagram or circuit evaluated by the "
                    "library's to_tensor4/to_tensorf in both backends; TLC compares every entry with Den / CircSem; the comparison helpers "
                    "are run on all ordered pairs of a pool of 0-, 1- and 2-index tensors; non-trivial = has at least one spider / gate. "
                    "Additions: every comparison helper (==, scalar_eq, compare, scalar_compare; Scalar4 and Complex<f64>) on seeded pairs of "
                    "fixed tensors (equal / proportional / one or both zero / different shapes / near misses) and on diagrams and circuits, "
                    "judged by equality / ProjEq of the logged exact tensors; QubitOps ident, delta, cphase, hadamard and sequences of "
                    "hadamard_at / cphase_at / delta_at with caller-chosen index positions judged entry by entry against Circuit.tla's gate "
                    "application (App1 with MHad, AppDiag) and IdTensor; plug_n_qubits against Compose; circuits on 6 and 7 qubits and the "
                    "same operations on ident(6) because tensor code is size dependent (parallel zip, broadcasting)"
                    "; GENERIC: the clause 'to floating-point tolerance' - seeded inputs whose phases are NOT multiples of pi/4 (n/d, d in 3,5,6,7,8,12,16; float-approximate scalars): the harness compares with its independent float reference evaluator (harness/src/refeval.rs, validated entry by entry against the exact Den / CircSem by Trace_Tensor!RefEvalOK in the C08 check) at 1e-9 and logs booleans, TLC judges them")


def plan_C11(prop, tier, seed, t0):
    q = tier == "quick"
    mcs = [dict(name="plug", module="MC_Plug.tla", cfg="MC_Plug_q.cfg" if q else "MC_Plug_t.cfg", timeout=3000 if q else 9000)]
    T = dict(module="Trace_Compose.tla", cfg="Trace_Compose.cfg")
    traces = [
        dict(name="pairs", engine="compose", args=["--wires", "--fam", "k=1,tys=ZX,phs=014,ets=NH,nb=2,bb=1", "--fam", "k=2,tys=ZX,phs=01,ets=NH,nb=2",
                                                   "--random", 200, "--rand", "maxsp=4,maxb=4", "--pairs", 1200 if q else 20000], **T),
        dict(name="wires", engine="compose", args=["--wires", "--allpairs"], **T),
        # docs/api_audit.md #20: the same calls on diagrams whose spiders carry boolean variables and whose scalar has conditional factors,
        # every equation judged under EVERY assignment (DenV)
        dict(name="pairs_v", engine="compose", args=["--fam", "k=1,tys=ZX,phs=014,ets=NH,nb=2,vars=01", "--random", 150, "--rand", "maxsp=4,maxb=3,vars=012,pvar=0.35",
                                                     "--sf", "--pairs", 120 if q else 3000], **T),
    ]
    return run_plan(prop, tier, seed, t0, mcs, traces, "model_checking", COMMON_ASSUME,
                    "MC: all pairs of diagrams of the family (one spider each, <=2 boundaries attached by N/H wires, optional boundary-to-"
                    "boundary wire) with matching arities: plug = composition, juxtaposition = tensor product, adjoint = dagger and involutive, "
                    "plug_inputs/outputs = contraction with basis vectors for EVERY list over {Z0,Z1,X0,X1,SKIP} of every length <= #wires, "
                    "is_identity = structural definition; TRACE: one execution = one pair on which all those calls ran in both backends; "
                    "each result decided in TLC by Den(post) = the linear-algebra expression over Den(g), Den(h); also copy(adjoint), "
                    "subgraph_from_vertices on unions of connected components (tensor factor), plug_vertex called directly, lists mapped through "
                    "BasisElem::flipped, the BasisElem predicates; pairs_v: operands with boolean variables and conditional scalar factors, every "
                    "equation under every assignment. Deviations that are exactly one of the three recorded defects (conditional factors of `other` "
                    "not taken over by append_graph/plug, not conjugated by adjoint, copy() without boundary lists and scalar; switches in "
                    "mc/Trace_Compose.tla) are counted in trace_stats sf_other_dropped / sf_not_conjugated / copy_incomplete",
                    extra_cov_fn=lambda st, groups: {"known_deviation_sf_other_dropped": st.get("sf_other_dropped", 0),
                                                     "known_deviation_sf_not_conjugated": st.get("sf_not_conjugated", 0),
                                                     "known_deviation_copy_incomplete": st.get("copy_incomplete", 0)})


def plan_C12(prop, tier, seed, t0):
    q = tier == "quick"
    mcs = [dict(name="equal1", module="MC_Equal.tla", cfg="MC_Equal_q.cfg", timeout=3000),
           dict(name="equal2", module="MC_Equal.tla", cfg="MC_Equal_2.cfg" if q else "MC_Equal_2t.cfg", timeout=3000 if q else 9000)]
    T = dict(module="Trace_Eq.tla", cfg="Trace_Eq.cfg")
    traces = [
        dict(name="enum", engine="eqcheck", args=["--enum", "1,2,small_unitary", "--enum", "2,1,small_unitary", "--stride", 2 if q else 1], **T),
        # --graphs-every K: every K-th pair also as two unitary DIAGRAMS that are not to_graph outputs (simplified, built with options,
        # colour-changed, renamed, times i), ground truth = Den of the logged diagrams
        dict(name="rand", engine="eqcheck", args=["--random", 400 if q else 2500, "--alphabet", "unitary", "--maxq", 3, "--maxlen", 7,
                                                  "--graphs-every", 8 if q else 3], **T),
        # circuit-derived maps that are not square (ancilla initialisation / post-selection: n -> m, m != n), seed C12_e: identical pairs,
        # pairs differing by a cancelling pair / one gate, independent pairs; tensor checkers and arity tests judged in full, the
        # rewriting-based checker (which presupposes unitaries) only on its "not equal" answers
        dict(name="nonunitary", engine="eqcheck", args=["--nonunitary", 200 if q else 3000], shards=max(2, NCPU // 2), **T),
    ]
    return run_plan(prop, tier, seed, t0, mcs, traces, "model_checking", COMMON_ASSUME,
                    "MC: the checker's algorithm (adjoint, plug, every firing order of full_simp, identity test, scalar test) on every pair of "
                    "circuits over the alphabet: the composite denotes S1^dagger;S2 in every state and the answer at every quiescent state "
                    "obeys Def; TRACE: one execution = one pair of circuits (independent, equal by construction: cancelling pairs, commuted "
                    "gates, re-extraction; near misses: one gate changed, global phase -1 / e^{i pi/4}, Hadamards on wires, wire swap, other "
                    "arity) on which all ten checker entry points ran (incl. equal_graph and equal_graph_dim called directly), plus pairs of "
                    "unitary diagrams that are not to_graph outputs (simplified / built with options / colour-changed / renamed / times i) judged "
                    "against Den of the logged diagrams; non-trivial = definite answers, each compared with CircSem / Den ground truth")


def plan_C03(prop, tier, seed, t0):
    q = tier == "quick"
    mcs = [dict(name="extract_q", module="MC_Extract.tla", cfg="MC_Extract_q.cfg", timeout=3000),
           # one deep circuit whose frontier needs Gaussian elimination, every firing order of the simplifier (vacuity: Gauss, gadget pivots, permutation all taken)
           dict(name="extract_gauss1", module="MC_Extract.tla", cfg="MC_Extract_g1.cfg", timeout=3000, workers=6, actions=("DoGauss", "DoGadget", "DoPerm", "DoPrepare"))]
    if not q:
        mcs += [dict(name="extract_" + c, module="MC_Extract.tla", cfg=f"MC_Extract_{c}.cfg", timeout=5000) for c in ("c3", "f3", "flow3")]
        mcs += [dict(name="extract_gauss1c", module="MC_Extract.tla", cfg="MC_Extract_g1c.cfg", timeout=3000, workers=6, actions=("DoGauss", "DoGadget")),
                dict(name="extract_tmpl96", module="MC_Extract.tla", cfg="MC_Extract_g6.cfg", timeout=5000, workers=6, actions=("DoGadget", "DoPerm"))]
    T = dict(module="Trace_Extract.tla", cfg="Trace_Extract.cfg")
    cli = ["--quizx-bin", QUIZX_BIN, "--cli-every", 6 if q else 3]
    traces = [
        dict(name="enum", engine="extract", args=["--enum", "2,2,small_unitary", "--enum", "1,2,small_unitary", "--stride", 3 if q else 1] + cli, **T),
        dict(name="rand", engine="extract", args=["--random", 500 if q else 3000, "--alphabet", "unitary", "--maxq", 3, "--maxlen", 9] + cli
             + ([] if q else ["--thorough"]), **T),
        dict(name="rand4", engine="extract", args=["--random", 40 if q else 800, "--alphabet", "unitary", "--maxq", 4, "--maxlen", 12] + cli, **T),
        # deep Clifford+T circuits on two qubits: frontiers that need Gaussian elimination with several neighbours
        dict(name="deep2", engine="extract", args=["--random", 150 if q else 3000, "--alphabet", "ct", "--minq", 2, "--maxq", 2, "--minlen", 12, "--maxlen", 40] + cli, **T),
        dict(name="enum2", engine="extract", args=["--enum", "2,6,cth", "--stride", 24 if q else 2], **T),
        # hook H4: every phase of Extractor::extract with diagram, circuit and frontier, validated as behaviours of spec/Extract.tla
        dict(name="steps", engine="xsteps", module="Trace_XSteps.tla", cfg="Trace_XSteps.cfg",
             args=["--random", 80 if q else 200, "--alphabet", "ct", "--minq", 2, "--maxq", 3, "--minlen", 6, "--maxlen", 30] + ([] if q else ["--thorough"])),
        dict(name="steps_enum", engine="xsteps", module="Trace_XSteps.tla", cfg="Trace_XSteps.cfg",
             args=["--enum", "2,4,cth", "--stride", 9 if q else 4]),
        # source circuits with rz / rx / parity-phase angles that are not multiples of pi/4 through the promised strategy x extractor
        # combinations, both backends (float gate-matrix evaluator, proportionality at 1e-9; ExtractOKFloat)
        dict(name="generic", engine="extract", args=["--generic", 200 if q else 2000], shards=max(2, NCPU // 2), **T),
    ]
    return run_plan(prop, tier, seed, t0, mcs, traces, "model_checking", COMMON_ASSUME,
                    "MC: the extraction state machine of spec/Extract.tla (prepare frontier / gadget pivot / extract / Gauss-Jordan row operations "
                    "mirrored as CNOTs / final permutation) started from every quiescent result of every firing order of the simplification strategy "
                    "on every circuit over the alphabet: ExtInv (Den(g);CircSem(c) proportional to the source) in EVERY state, basic gates only, "
                    "never the error state, identity wires at the end; TRACE: one program = one source circuit pushed through to_graph -> {flow, clifford, full}_simp -> Extractor in modes "
                    "{single-solution-set, simple-Gauss, up-to-permutation} (+ flow/no-Gauss), both backends, a rotating selection of the other "
                    "public routes (up_to_perm with simple-Gauss / flow in both call orders, with_gaussf with the pub strategies and a caller's "
                    "function, ToCircuit::to_circuit / to_circuit_mut / extractor(); the flow extractor after clifford / full simplification is "
                    "recorded, not judged) and through the built `quizx opt` "
                    "binary (4 method flags, stdout, -o and --out; two method flags / missing / unparsable input must exit non-zero without a panic); "
                    "every output circuit is validated by TLC: basic gates only, same qubits, "
                    "ProjEq(CircSem(out), CircSem(in)) with a non-zero factor (for some input permutation in up-to-permutation mode); "
                    "STEPS (hook H4): every phase of the real extraction loop (prepare / gadget / extract / gauss / perm) is logged with the remaining "
                    "diagram, the circuit so far and the frontier, and TLC checks that each is a transition of spec/Extract.tla from the previous "
                    "recorded state (PrepareSet, ApplyGenPivot on an allowed pair, ExtractAll, row operations = new CNOTs and an element of SlnChoices, "
                    "permutation) and that ExtInv holds in the recorded states (diagrams up to 6 spiders); deviations are L1 drift, the result is judged as above"
                    "; GENERIC: the clause 'to floating-point tolerance' - seeded inputs whose phases are NOT multiples of pi/4 (n/d, d in 3,5,6,7,8,12,16; float-approximate scalars): the harness compares with its independent float reference evaluator (harness/src/refeval.rs, validated entry by entry against the exact Den / CircSem by Trace_Tensor!RefEvalOK in the C08 check) at 1e-9 and logs booleans, TLC judges them",
                    extra_cov_fn=lambda st, groups: {"programs": groups, "disagreements_checked": st.get("extractions", 0) + st.get("cli", 0),
                                                     "extraction_phases_validated": st.get("steps", 0), "gauss_steps": st.get("gauss", 0), "gadget_pivots": st.get("gadget", 0)})


def plan_C09(prop, tier, seed, t0):
    q = tier == "quick"
    mcs = [dict(name="backends", module="MC_Backends.tla", cfg="MC_Backends_q.cfg" if q else "MC_Backends_t.cfg", timeout=3000 if q else 9000)]
    T = dict(module="Trace_Backends.tla", cfg="Trace_Backends.cfg")
    traces = [
        dict(name="hist", engine="backends", args=["--histories", 200 if q else 3000, "--len", 60, "--maxlive", 7], **T),
        dict(name="long", engine="backends", args=["--histories", 32 if q else 400, "--len", 300, "--maxlive", 10], **T),
        # --ext (docs/api_audit.md #18, #19, C09/C10 rows): every remaining query of the interface logged after every operation, histories
        # from Graph::default(), and adjoint / x_to_z / plug_vertex / plug_input(s) / plug_output(s) / make_bipartite / copy / append_graph and
        # plug with `other` of the OTHER backend type / inputs_mut / add_edge / add_vertex_with_phase / the Parity-Expr constructors and
        # operators of params.rs mixed into the histories
        dict(name="ext", engine="backends", args=["--histories", 160 if q else 2500, "--len", 60, "--maxlive", 7, "--ext"], **T),
        # specification -> implementation: mc/MC_BackendsReplay.tla is MC_Backends with a history variable (hidden by a VIEW); for EVERY distinct
        # reachable state of the two transcribed storage machines TLC prints one operation history that reaches it and the public state
        # Backends.tla predicts (exact names per tag, vindex, counts, boundary lists, edges); `qxv record backends --from-tlc` executes each
        # history on both REAL backends from the empty graph, compares the prediction (replay_mismatch, L1) and logs every step for Trace_Backends (L2)
        dict(name="mcreplay", engine="backends", args=[], shards=NCPU,
             from_mc=dict(name="replay", module="MC_BackendsReplay.tla", cfg="MC_BackendsReplay_q.cfg" if q else "MC_BackendsReplay_t.cfg",
                          timeout=3000 if q else 9000), **T),
    ]
    return run_plan(prop, tier, seed, t0, mcs, traces, "model_checking", COMMON_ASSUME + [
                        "vertex identity across backends is a tag stored in the row coordinate; inputs/outputs are taken off the lists before a listed vertex is deleted (valid usage)"],
                    "MC: every operation sequence up to the bound on the two transcribed storage machines (hole stack / fresh counter, swap_remove "
                    "adjacency vectors, pack renumbering) and the abstract graph: VecInv, HashInv, Refines (equality in tag space), Counts, "
                    "SameOutcome in every state; TRACE: one execution = one seeded random history of 30-300 public GraphLike operations "
                    "(add/remove/named insertion incl. beyond range, raw and smart edges, data edits, inputs/outputs, scalar and scalar factors, "
                    "pack, clone, sub-graph, append) applied to both real backends; after EVERY operation the full observable of both is "
                    "validated by TLC: internal consistency, equality with the abstract model in tag space; non-trivial = operations that changed the graph; "
                    "EXT histories additionally mix in adjoint, x_to_z, plug_vertex / plug_input(s) / plug_output(s), make_bipartite, copy(adjoint), "
                    "append_graph and plug with the other backend's graph as `other`, boundary edits through inputs_mut / outputs_mut, add_edge, "
                    "add_vertex_with_phase, start from Graph::default(), build every Parity / Expr argument with the constructors and operators of "
                    "params.rs, and log after every operation the answers of vertex_data_opt, vertex_type_opt, edge_type_opt (all name pairs incl. dead "
                    "names), coord, phase, vars, phase_and_vars, neighbor_vec, incident_edge_vec, component_vertices, depth, adjacency_matrix(None/Some), "
                    "get_scalar_factor (enumerated and absent conditions) and vec neighbor_at: InvOKx (each consistent with the enumerated graph), "
                    "Refines against the transcriptions of spec/Compose.tla in tag space, CopyOK, GetSFOK, ParAlgOK; "
                    "REPLAY (specification -> implementation): one witness history for every distinct state MC_BackendsReplay reaches is executed on both "
                    "real backends; the final public state must be the one spec/Backends.tla predicts (names, vindex, counts, lists, edges) and every step is "
                    "validated by Trace_Backends like a recorded history",
                    extra_cov_fn=lambda st, groups: {"extended_observations_validated": st.get("xobs", 0), "ext_operations": st.get("ext_ops", 0),
                                                     "cross_backend_plugs": st.get("plugs", 0), "parity_algebra_calls": st.get("par_algs", 0),
                                                     "parity_new_unsorted_recorded": st.get("par_unsorted", 0),
                                                     "parity_new_unsorted_sum_not_xor": st.get("par_unsorted_wrong", 0)})


def plan_C05(prop, tier, seed, t0):
    q = tier == "quick"
    cfgs = ["small", "cat", "cat4", "bss", "tpair", "cat6"] if q else ["small", "cat", "cat4", "cat5", "cat6", "m5", "bss", "tpair"]
    mcs = [dict(name="step_" + c, module="MC_Decomp.tla", cfg=f"MC_Decomp_{c}.cfg", timeout=3000) for c in cfgs]
    mcs += [dict(name="par1", module="MC_DecompPar.tla", cfg="MC_DecompPar_1.cfg", timeout=3000),
            dict(name="par2", module="MC_DecompPar.tla", cfg="MC_DecompPar_2.cfg", timeout=3000),
            # two-stage use (decompose_until_depth, then decompose): the stored tree of sum and PRODUCT nodes keeps the value
            dict(name="tree", module="MC_DecompTree.tla", cfg="MC_DecompTree_q.cfg" if q else "MC_DecompTree_t.cfg", timeout=3000 if q else 9000,
                 actions=("Stage1", "Witness"))]
    T = dict(module="Trace_Decomp.tla", cfg="Trace_Decomp.cfg")
    traces = [
        dict(name="steps", engine="decomp", args=["--steps", 400 if q else 6000, "--maxt", 6], **T),
        dict(name="runs", engine="decomp", args=["--runs", 14 if q else 300, "--circuits", 6 if q else 150, "--maxt", 6] + ([] if q else ["--all-threads"]), **T),
        dict(name="saved", engine="decomp", args=["--saved", 60 if q else 1200, "--maxt", 5], **T),
        # API-coverage additions (docs/api_audit.md #3, #14): decompose_until_depth(k) + finishing run on hosts that fall into
        # components; decompose_standard, hash backend, Sherlock tries, Decomposer::empty()/set_target re-use, saving in other modes
        dict(name="api", engine="decomp", args=["--two", 6 if q else 150, "--more", 9 if q else 300, "--reuse", 30 if q else 900,
                                                "--saved-modes", 6 if q else 200, "--steps-hash", 18 if q else 900, "--maxt", 5], **T),
    ]
    return run_plan(prop, tier, seed, t0, mcs, traces, "model_checking", COMMON_ASSUME + [
                        "'every schedule' of the real rayon pool is sampled (pool sizes 1,2,3,4,8,16 x repetitions), the fork-join model "
                        "DecompPar shows the combination logic is schedule independent"],
                    "MC: StepSum (terms sum to the host) for every transcribed replacement family on hosts with T-like spiders, all edge sets "
                    "among a candidate set, pi/0 hubs, extra Clifford neighbour, optional output, argument orders; fork-join model of the "
                    "decomposer on computation trees with 2 workers: every partial result equals the subtree's value under every schedule, "
                    "termination; TRACE: one execution = one host diagram with (a) every driver's chosen step and explicit steps through the "
                    "guarded apply_decomp re-export, (b) complete Decomposer runs over 7 drivers x 3 simplification levels x split on/off x "
                    "sequential + parallel pools, (c) saved terms of the BSS-type drivers on diagrams with outputs; all decided in TLC by Den. "
                    "Additions: MC_DecompTree: the tree decompose_until_depth leaves behind (sum nodes, product nodes of components with the "
                    "whole scalar on the first) has the host's value at every depth and reduces to it, for all hosts over K spiders (every "
                    "component structure) x depth x split x 3 model drivers; TRACE (d) two-stage histories decompose_until_depth(k in 0..3) then "
                    "decompose / decompose_parallel / another driver on clones of the partial state, 7 drivers x 3 levels x split on/off, on "
                    "juxtaposed diagrams and diagrams that split after one step, both backends (TwoStageScalarOK), (e) decompose_standard, "
                    "Decomposer<hash_graph::Graph>, Sherlock tries other than [2,2,2], one Decomposer::empty() re-used through set_target for "
                    "2-4 targets with with_full_simp / with_clifford_simp (the previous target must not leak), apply_decomp on the hash backend, "
                    "saved terms of two-stage / re-used / hash decomposers; saving combined with decompose_parallel or component splitting, "
                    "max_terms vs nterms, a second decompose_until_depth, Sherlock parameters without a candidate are counted, not judged")


def plan_C06(prop, tier, seed, t0):
    q = tier == "quick"
    mcs = [dict(name="sim", module="MC_Sim.tla", cfg="MC_Sim_q.cfg" if q else "MC_Sim_t.cfg", timeout=3000 if q else 9000)]
    T = dict(module="Trace_Sim.tla", cfg="Trace_Sim.cfg")
    simdir = os.path.join(WORK, prop, "simdir")
    traces = [
        dict(name="cli", engine="sim", args=["--quizx-bin", QUIZX_BIN, "--dir", simdir, "--circuits", 40 if q else 600, "--shots", 6 if q else 12,
                                             "--queries", 5 if q else 10, "--maxq", 3, "--maxlen", 8, "--variants"], **T),
        # deep T-rich circuits: the decomposer meets cats with adjacent legs, 6-T groups with mixed phases (seeds C06_c, C06_d)
        dict(name="deep", engine="sim", args=["--quizx-bin", QUIZX_BIN, "--dir", simdir + "_deep", "--circuits", 40 if q else 300, "--shots", 3 if q else 6,
                                              "--queries", 4 if q else 8, "--minq", 2, "--maxq", 3, "--minlen", 30, "--maxlen", 60, "--alphabet", "ct"], **T),
        # rz / rx angles that are not multiples of pi/4 ("non-Clifford+T phases, to tolerance"): amplitudes, expectation values, every draw of the
        # sampler against the harness's float reference state vector, all methods, with and without -p 2 (ProbabilityFloatOK, ExpectationFloatOK,
        # MarginalFloatOK, ConditionalFloatOK, SampleHasNonZeroProbability, QuerySucceeds)
        dict(name="generic", engine="sim", args=["--quizx-bin", QUIZX_BIN, "--dir", simdir + "_generic", "--circuits", 0, "--shots", 4 if q else 8,
                                                 "--queries", 6 if q else 10, "--generic", 150 if q else 2000], shards=max(2, NCPU // 2), **T),
    ]
    return run_plan(prop, tier, seed, t0, mcs, traces, "model_checking", COMMON_ASSUME + [
                        "printed decimals and the sampler's p are compared at 1e-9 (harness arithmetic) with values derived from the exact scalars that TLC validates",
                        "that rand's Bernoulli draws are distributed with the p they are given is not checked (no statistical test)"],
                    "MC: consistency of the Born quantities of spec/Sim.tla over all small circuits (total probability, chain rule of the "
                    "marginals, expectation values real / identity / Z-type strings); TRACE: one execution = one circuit queried through the built "
                    "`quizx sim` binary: amplitudes for bit strings (incl. broadcast), expectation values for Pauli strings (incl. lower case and "
                    "broadcast), sampling runs with the hook logging every draw, methods --cats/--bss/default, with and without --parallel, "
                    "plus a catalogue of malformed queries; every exact scalar the decomposer returned is compared by TLC with the amplitude / "
                    "expectation / marginal it must be. Additions (--variants, docs/api_audit.md #13): per circuit the command without a task flag "
                    "(one shot), -s 0, the long flags --shots / --amplitude / --expval / --parallel, -p N for N in {0,1,3,4}, -o / --out (the answer "
                    "is read back from the file), malformed flag values; once per run unreadable / malformed input files (MalformedRejected), legal "
                    "OpenQASM the front end does not support (UnsupportedInputNoPanic), a circuit with a measurement (outside the quantifier: counted)"
                    "; GENERIC: circuits whose rz / rx angles are NOT multiples of pi/4 (n/d, d in 3,5,6,7,8,12,16) have no exact value in the ring: the harness "
                    "computes the state vector with its float reference evaluator (harness/src/refeval.rs, validated against CircSem by TLC: RefEvalOK in the C08 "
                    "traces) and compares the printed probability / expectation value (1e-9), every hooked marginal (1e-9) and every probability handed to the "
                    "Bernoulli draw with the conditional probability (1e-8); TLC judges the logged booleans and QuerySucceeds (no panic, exit 0)",
                    extra_cov_fn=lambda st, groups: {"generic_phase_circuits": st.get("generic_circuits", 0), "generic_phase_queries": st.get("generic_queries", 0)})


def plan_C07(prop, tier, seed, t0):
    q = tier == "quick"
    mcs = [dict(name="ring", module="MC_Ring.tla", cfg="MC_Ring.cfg", timeout=3000)]
    T = dict(module="Trace_Scalar.tla", cfg="Trace_Scalar.cfg")
    traces = [
        dict(name="hist", engine="scalar", args=["--dyadic", 160 if q else 3000, "--scalar", 160 if q else 3000, "--len", 60], **T),
        dict(name="long", engine="scalar", args=["--dyadic", 24 if q else 300, "--scalar", 24 if q else 300, "--len", 150], **T),
    ]
    return run_plan(prop, tier, seed, t0, mcs, traces, "model_checking", COMMON_ASSUME + [
                        "arbitrary-precision arithmetic is written in TLA+ (spec/BigNat.tla) and evaluated by TLC; mantissas travel as base-2^15 limbs",
                        "exponents are kept where doubles exist (|log2| <= 900): exponent overflow is outside the property"],
                    "MC: ring laws, conjugation, roots of unity, sqrt2 powers, multiplicativity of |z|^2, exact phase recognition on the algebraic "
                    "specification (Ring.tla) over all pairs of small elements; TRACE: one execution = one seeded history of 60-150 operations on "
                    "registers of Dyadic / Scalar4 values, multiplication depth <= 6 so that the exact ghosts stay small (constants incl. full 64-bit mantissas, doubles, phases; + - * neg conj sqrt2-powers "
                    "phases; comparisons, tests, views, float conversions); TLC recomputes the exact value of every register with BigNat and decides "
                    "Normalised, Honest (unflagged => exact), order / abs_diff_eq / tests, float conversions within 1e-12; non-trivial = operations producing a value. "
                    "Every binary operation runs through one of its overloads in turn (owned / reference operands, += -= *= with owned or reference right-hand side, "
                    "Sum, Product; Dyadic += -= *= abs, PartialOrd) and must equal the owned operator bit for bit (VariantOK); From<i64>/<[i64;4]>/<f64>/<[f64;4]>, "
                    "Default, minus_one, sqrt2, one_over_sqrt2, mul_one_plus_phase are judged against their ghosts; approx()/set_approx() (Scalar4 and Dyadic) against "
                    "the raw flags (ApproxAccessorOK); complex_value() and the owned TryFrom<Scalar4> both within 1e-12 (every sixth history has its constants near "
                    "2^+-820); Scalar4's abs_diff_eq outside a band around its epsilon (AbsDiffEq4OK); Display/Debug are executed and counted only")


PLANS = {"C01": plan_C01, "C07": plan_C07, "C06": plan_C06, "C05": plan_C05, "C09": plan_C09, "C03": plan_C03, "C12": plan_C12, "C11": plan_C11, "C08": plan_C08, "C02": plan_C02, "C04": plan_C04, "C10": plan_C10, "C15": plan_C15}

TECH = "explicit TLA+ specification; TLC exhaustive model checking of the spec + TLC trace validation of recorded executions of the real code"
META = {
    "C04": dict(level="model_checking", engine="rules", design_ref="DESIGN.md section 3 C04",
                technique=TECH,
                text="Every rule matcher/effect is transcribed in spec/Rules.tla; TLC exhausts Sound/NoPanic/StaysWF over all diagrams of a "
                     "bounded family x all rules x all argument tuples (MC_Rules), and every application the real code accepts on the same "
                     "families and on random diagrams (both backends) is validated by TLC: Den(post)=Den(pre) with the spec's own denotation, "
                     "rejected tuples are checked to be bit-for-bit no-ops, matcher verdicts are compared with the spec's (L1).",
                note="bounded: <=3 spiders (+created vertices) exhaustively, <=6 spiders randomly; the denotation ZXSem is the trusted oracle"),
}
META["C01"] = dict(level="model_checking", engine="simp", design_ref="DESIGN.md section 3 C01", technique=TECH,
    text="spec/Simp.tla models every simplifier as ANY-order iteration of the transcribed rules (a superset of the code's storage-order "
         "dependent schedule) plus the batch steps fuse_gadgets / remove_gadget_pi; TLC exhausts Sound/NoPanic/StaysWF in every reachable "
         "state and termination under fairness from every diagram of a bounded family; every pub simplifier of the real code is run on the "
         "same family, on random diagrams and gadget-rich graph-like diagrams in both backends under a watchdog and TLC decides "
         "Den(post)=Den(pre) on what the code produced.",
    note="bounded (<=3 spiders exhaustive, <=6+gadgets random); the exact verdicts are for phases k*pi/4; for other phases (n/d, d in 3..16) the "
         "`generic` trace compares pre and post with a float reference evaluator in the harness (harness/src/refeval.rs, itself validated against "
         "the specification's exact Den by TLC: RefEvalOK) at 1e-9 and TLC judges the logged boolean (SoundFloat); hook H3 logs every rule "
         "application and Trace_Simp checks it is a step of spec/Simp.tla (L1); termination on the real code is a 20 s watchdog")
META["C10"] = dict(level="model_checking", engine="rules+simp+tograph", design_ref="DESIGN.md section 3 C10", technique=TECH,
    text="Same machinery as C04/C01/C02 with boolean variables {0,1,2} on spiders: TLC checks DenV (denotation under every assignment) on the "
         "spec exhaustively and on every recorded rule application / simplifier run / measurement-circuit translation of the real code.",
    note="variables only on spiders without constant term (the property's quantifier); <=3 variables")
META["C02"] = dict(level="model_checking", engine="tograph", design_ref="DESIGN.md section 3 C02", technique=TECH,
    text="spec/ToGraph.tla transcribes Gate::add_to_graph case by case; TLC checks Den(ToGraph(c)) = CircSem(c) for every circuit over the full "
         "gate alphabet up to the length bound, per measurement outcome; the real to_graph_with_options (plain / simplify / post-selected CCZ, "
         "vec and hash) is validated circuit by circuit by TLC with the same two definitions, and compared name for name with the spec's graph (L1).",
    note="<=2 qubits x <=3 gates exhaustive (3 qubits for CCZ/TOFF), <=4 qubits x <=10 gates random; exact verdicts for phases k*pi/4; circuits with "
         "other phases (rz/rx(n/d), d in 3..16) are judged in the `generic` trace against the float reference evaluator of the harness "
         "(validated by TLC against Den / CircSem: RefEvalOK) at 1e-9 (TranslatedFloat)")
META["C15"] = dict(level="model_checking", engine="circops", design_ref="DESIGN.md section 3 C15", technique=TECH,
    text="spec/Circuit.tla defines Adjoint/ToBasic/NumBasic/Concat and the gate-matrix semantics; TLC exhausts the algebraic laws over all small "
         "circuits (all argument orders of CCZ/TOFF, parity-phase arity 1..3) and validates every recorded result of the real "
         "to_adjoint/to_basic_gates/+/reverse/stats with exact equalities.",
    note="exact phases k*pi/4; the Clifford classification of XCX / parity-phase by stats() is accepted as conservative (DESIGN section 7)")
META["C08"] = dict(level="model_checking", engine="tensor", design_ref="DESIGN.md section 3 C08", technique=TECH,
    text="spec/ZXSem.tla is the reference interpretation (declarative sum over spider assignments, cross-checked by a second elimination "
         "evaluator under TLC over an exhaustive family); every tensor the library computes for diagrams of the exhaustive family, random "
         "diagrams (<=7 spiders, <=4 boundaries, scattered numbering) and circuits over all gates its evaluator supports is compared entry "
         "by entry by TLC; == and scalar_eq are compared with the spec's TEq/ProjEq on all pairs of a tensor pool.",
    note="to_tensorf is compared in the harness with the TLC-validated exact tensor at 1e-9 (floating point is outside TLA+); diagrams and circuits with "
         "phases outside the multiples of pi/4 are compared with the float reference evaluator of the harness, which TLC validates against Den / "
         "CircSem on the exact fragment (RefEvalOK); a wide family (6-7 qubits) covers size-dependent code paths; every diagram is also evaluated with "
         "scattered drawing coordinates")
META["C11"] = dict(level="model_checking", engine="compose", design_ref="DESIGN.md section 3 C11", technique=TECH,
    text="spec/Compose.tla transcribes plug/append_graph/adjoint/plug_vertex/plug_inputs/plug_outputs/is_identity and states their meaning "
         "with tensor algebra over the reference denotation; TLC exhausts all pairs of a small family including Hadamard boundary wires and "
         "boundary-to-boundary wires, and validates every recorded call of the real code on random pairs, wire-only diagrams (cups, caps, "
         "crossings) and families in both backends.",
    note="bounded sizes; one recorded defect (plug with a cap in the plugged diagram) is listed in known_findings.json")
META["C12"] = dict(level="model_checking", engine="eqcheck", design_ref="DESIGN.md section 3 C12", technique=TECH,
    text="spec/Equality.tla states the contract Def and the checker's algorithm as the composition of the C11 and C01 actions; TLC explores it on "
         "all pairs of small circuits under every simplification order; every answer of the eight real entry points on independent, "
         "equal-by-construction and near-miss pairs is compared by TLC with the exact gate semantics.",
    note="ground truth by exact CircSem (<=4 qubits); the float test arg(scalar)=0 is mirrored by the exact test 'positive real' (DESIGN section 3 C12)")
META["C03"] = dict(level="model_checking", engine="extract", design_ref="DESIGN.md section 3 C03 and 10.2", technique=TECH,
    text="spec/Extract.tla models the extractor as a state machine and TLC checks the invariant Den(g);CircSem(c) ~ source in every state for all "
         "small circuits and all simplification orders. Every extraction the real code performs on enumerated and random circuits (all strategy x extractor-mode combinations, both backends, "
         "and the CLI end to end) is validated per program by TLC with the specification's exact circuit semantics: equivalence up to a "
         "non-zero scalar, basic gate set, same qubits, permutation witness in up-to-permutation mode; failure to extract, panics and "
         "time-outs are violations.",
    note="the Gauss phase of the model is either a plain Gauss-Jordan elimination or the single-solution-set step with ANY extractable row and ANY target "
         "(the external bitgauss eliminator is not transcribed: any row-operation sequence keeps the invariant); hook H4 logs every phase of the real "
         "extraction loop and mc/Trace_XSteps.tla checks each as a transition of spec/Extract.tla (L1) besides the end-to-end verdict per program (L2); "
         "ExtInv on recorded intermediate states is evaluated for diagrams up to 6 spiders only; CLI inputs exclude the pyzx-specific `pp` gate, which "
         "the QASM front end does not declare; flow-type extractors are only promised after flow_simp (other combinations are recorded, not judged)")
META["C09"] = dict(level="model_checking", engine="backends", design_ref="DESIGN.md section 3 C09", technique=TECH,
    text="spec/Backends.tla models the vector store (Option slots, free-name stack, swap_remove adjacency lists, cached numv/nume, pack "
         "renumbering) and the hash store (maps of maps, fresh counter) as two concrete machines next to the abstract graph; TLC exhausts "
         "all operation sequences up to the bound for the representation invariants and refinement; long random histories of the real "
         "backends are validated operation by operation (full observable of both after every call) against the abstract model in tag space, "
         "including compaction, clone independence, sub-graph and append. In the other direction TLC prints one operation history for every "
         "distinct reachable state of the two storage machines (mc/MC_BackendsReplay.tla) with the public state the specification predicts "
         "(exact vertex names, vindex, counts, lists, edges); each is executed on both real backends and must end in the predicted state.",
    note="enumeration order and edge orientation are not observable (sorted before logging); allocator names are only checked as L1 drift",
    technique_override="explicit TLA+ specification; TLC exhaustive model checking of the spec + replay of TLC-generated behaviours into the real code + TLC trace validation of recorded executions of the real code")
META["C05"] = dict(level="model_checking", engine="decomp", design_ref="DESIGN.md section 3 C05", technique=TECH,
    text="spec/Decomp.tla transcribes all 20 replace_* constructors with their hard-coded Z[omega] scalars and the dispatchers (cat "
         "pi-normalisation, padding); TLC verifies StepSum exhaustively over host families for every decomposition kind and validates every "
         "recorded step of the real code (re-exported apply_decomp), every complete Decomposer run of the configuration grid (scalar equals "
         "the exact value of the diagram computed by the specification, never flagged approximate) and the saved stabiliser terms; "
         "spec/DecompPar.tla model-checks schedule independence of the fork-join combination.",
    note="hosts <= 8 spiders (+ up to 7 created); rayon schedules are sampled, not enumerated; phases k*pi/4")
META["C06"] = dict(level="model_checking", engine="sim", design_ref="DESIGN.md section 3 C06", technique=TECH,
    text="spec/Sim.tla defines amplitudes, Born probabilities in Z[sqrt2][1/2], marginals, Pauli expectation values and the argument front end "
         "from the exact gate semantics; TLC checks their consistency exhaustively on small circuits and validates every run of the real CLI "
         "binary: guarded hooks expose the exact scalar behind every printed number and every Bernoulli draw of the sampler, so TLC decides "
         "that each is exactly the amplitude / expectation / marginal required, that the sampler uses the conditional probability, that printed "
         "samples have non-zero probability, and that malformed queries are rejected without a panic.",
    note="<=3 qubits, <=8 gates (deep trace: 30-60 gates); floating point (printed decimals, p) compared at 1e-9 in the harness; distribution of the PRNG not tested; "
         "circuits with angles that are not multiples of pi/4 (`generic` trace) have no exact value in the ring: printed probabilities / expectation values, hooked "
         "marginals and the sampler's conditional probabilities are compared with the harness's float reference state vector (refeval.rs, validated by TLC against "
         "CircSem on the exact fragment) and TLC judges the logged booleans")
META["C07"] = dict(level="model_checking", engine="scalar", design_ref="DESIGN.md section 3 C07", technique=TECH,
    text="Two layers. spec/Ring.tla is the algebraic specification of Scalar4 (model-checked ring laws). spec/Dyadic.tla on spec/BigNat.tla "
         "(arbitrary-precision naturals written in TLA+) specifies the 64-bit-mantissa format; the format cannot be enumerated, so TLC "
         "validates recorded operation histories of the real code: it carries an exact ghost value per register and decides for every "
         "operation that unflagged results are exact, results are normalised, ordering/equality/zero/one tests and abs_diff_eq agree with the "
         "reals, and f64 / complex conversions are within 1e-12 (an integer inequality on BigNats, including the sqrt2 terms).",
    note="exponent overflow excluded; the exhaustive part covers the algebra only, the number format is covered by trace validation of random and directed histories")
NOT_APPLICABLE = {}
ENGINES = [
    {"name": "scalar", "path": "spec/BigNat.tla spec/Dyadic.tla spec/Ring.tla mc/MC_Ring.tla mc/Trace_Scalar.tla harness/src/eng_scalar.rs",
     "serves_properties": ["C07"], "kind_free_text": "ring laws under TLC + trace validation with exact BigNat ghosts"},
    {"name": "sim", "path": "spec/Sim.tla mc/MC_Sim.tla mc/Trace_Sim.tla harness/src/eng_sim.rs",
     "serves_properties": ["C06"], "kind_free_text": "TLC Born-rule consistency + trace validation of the CLI binary with sampler hooks"},
    {"name": "decomp", "path": "spec/Decomp.tla spec/DecompPar.tla mc/MC_Decomp.tla mc/MC_DecompPar.tla mc/Trace_Decomp.tla harness/src/eng_decomp.rs",
     "serves_properties": ["C05"], "kind_free_text": "TLC exhaustive StepSum + fork-join model + trace validation of steps, runs and saved terms"},
    {"name": "backends", "path": "spec/Backends.tla mc/MC_Backends.tla mc/Trace_Backends.tla harness/src/eng_backends.rs",
     "serves_properties": ["C09"], "kind_free_text": "TLC exhaustive op sequences on two storage machines + replay of one TLC-generated history per distinct spec state into both real backends (mc/MC_BackendsReplay.tla) + trace validation of real histories"},
    {"name": "eqcheck", "path": "spec/Equality.tla mc/MC_Equal.tla mc/Trace_Eq.tla harness/src/eng_circ.rs",
     "serves_properties": ["C12"], "kind_free_text": "TLC exhaustive checker algorithm + trace validation of answers"},
    {"name": "extract", "path": "spec/Circuit.tla mc/Trace_Extract.tla harness/src/eng_circ.rs",
     "serves_properties": ["C03"], "kind_free_text": "TLC extraction state machine (spec/Extract.tla, mc/MC_Extract.tla) + per-program validation of extraction results and CLI output"},
    {"name": "compose", "path": "spec/Compose.tla mc/MC_Plug.tla mc/Trace_Compose.tla harness/src/eng_compose.rs",
     "serves_properties": ["C11"], "kind_free_text": "TLC exhaustive pairs + trace validation of composition/plugging calls"},
    {"name": "tensor", "path": "spec/ZXSem.tla mc/MC_Sem.tla mc/Trace_Tensor.tla harness/src/eng_tensor.rs",
     "serves_properties": ["C08"], "kind_free_text": "two-evaluator self-check under TLC + trace validation of library tensors"},
    {"name": "simp", "path": "spec/Simp.tla mc/MC_Simp.tla mc/Trace_Simp.tla harness/src/eng_simp.rs",
     "serves_properties": ["C01", "C10"], "kind_free_text": "TLC exhaustive (any-order strategies, liveness) + trace validation of simplifier runs"},
    {"name": "tograph", "path": "spec/Circuit.tla spec/ToGraph.tla mc/MC_ToGraph.tla mc/Trace_Circ.tla harness/src/eng_circ.rs",
     "serves_properties": ["C02", "C10"], "kind_free_text": "TLC exhaustive translation vs gate semantics + trace validation"},
    {"name": "circops", "path": "spec/Circuit.tla mc/MC_Circ.tla mc/Trace_Circ.tla harness/src/eng_circ.rs",
     "serves_properties": ["C15"], "kind_free_text": "TLC exhaustive circuit algebra + trace validation"},
    {"name": "rules", "path": "spec/Rules.tla mc/MC_Rules.tla mc/Trace_Rules.tla harness/src/eng_rules.rs",
     "serves_properties": ["C04", "C10"], "kind_free_text": "TLC exhaustive + trace validation of rule applications"},
]


def replay(prop, path):
    """Re-execute one violation file: re-validate the stored event(s) with the trace spec."""
    v = json.load(open(path))
    if v.get("kind") != "trace":
        log(json.dumps(v, indent=1)[:4000])
        return 0
    d = os.path.join(WORK, prop, "replay")
    os.makedirs(d, exist_ok=True)
    shard = os.path.join(d, "replay.0.ndjson")
    with open(shard, "w") as f:
        if v.get("reset"):
            f.write(json.dumps(v["reset"]) + "\n")
        if v.get("event") and v["event"] != v.get("reset"):
            f.write(json.dumps(v["event"]) + "\n")
    r = validate_shard(prop, v["trace_spec"], v["cfg"], shard, 600, 999)
    log(f"stored case: predicate {v['predicate']} tags {v['tags']}")
    log(f"re-validation of the stored observation: viol={r['viol']} drift={r['drift']}")
    log("to re-observe on the current tree, re-run the check with the same VERIF_SEED "
        f"({v.get('seed')}) and tier ({v.get('tier')})")
    return 1 if r["viol"] else 0


# plans contributed as separate modules bin/plan_Cxx.py: each defines plan(prop, tier, seed, t0), META (dict) and ENGINE (dict)
import glob as _glob, importlib as _importlib
# only plans listed in bin/ready.txt are registered (a contributed plan is added there once its check is green)
_ready = set(open(os.path.join(os.path.dirname(os.path.abspath(__file__)), "ready.txt")).read().split())
for _f in sorted(_glob.glob(os.path.join(os.path.dirname(os.path.abspath(__file__)), "plan_C*.py"))):
    _name = os.path.basename(_f)[:-3]
    if _name.split("_")[1] not in _ready and not os.environ.get("VERIF_ALL_PLANS"):
        continue
    _m = _importlib.import_module(_name)
    _pid = _name.split("_")[1]
    PLANS[_pid] = _m.plan
    META[_pid] = _m.META
    ENGINES.append(_m.ENGINE)
