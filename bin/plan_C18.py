"""C18: rank-decomposition trees stay valid with correct cached widths under all moves.

MC     mc/MC_RankTree.tla   the moves transcribed on the node array + the cut-rank cache as state
TRACE  mc/Trace_RankTree.tla on executions recorded by harness/src/eng_ranktree.rs

At most 8 TLC workers at any time (8 for an exhaustive config, 8 single-worker shard validations).

Configs that are NOT part of the plan because they show genuine defects of the code at the level of
the specification (InvNoPanic is violated; see the report / known_findings.json):
  mc/MC_RankTree_k2.cfg   swap_random_leaves on a two-vertex graph panics in replace_neighbor
  mc/MC_RankTree_nan.cfg  adaptive cooling on an edgeless graph: best_score = 0, NaN, random_bool panics
and, for its cost only, mc/MC_RankTree_c5.cfg (exact neighbour order on C5: 855 360 states, 15 min on 8 workers; holds).
Six vertices are out of reach even order-normalised (> 25 min)."""

W = 8
MOVES = ("ASwapLeaves", "ALocalSwap", "AMoveSubtree", "AComputeRanks")

ASSUME = [
    "TLC 1.8 and the CommunityModules Json/IOUtils are trusted",
    "the harness projection (eng_ranktree.rs: nodes_json, cache_json) faithfully reports the node array and the cache the code "
    "holds; the private cache is read completely through the public rank((i, j)) over all index pairs",
    "the cut-rank oracle is the F2 elimination RTRank of spec/RankTree.tla on the adjacency submatrix of the logged graph",
    "exhaustive only within the stated bounds; random cases depend on VERIF_SEED",
]


def plan(prop, tier, seed, t0):
    from plans import run_plan
    q = tier == "quick"
    M = dict(module="MC_RankTree.tla", workers=W)
    A = ("AStartAnneal", "AAnnealStep")
    # q: exact neighbour order, E3 P3 P4 C4 Star4 E4;  aq: annealer loop, order-normalised, P3 P4 C4 Star4
    mcs = [dict(name="tree", cfg="MC_RankTree_q.cfg", timeout=3000, actions=MOVES, **M),
           dict(name="anneal", cfg="MC_RankTree_aq.cfg", timeout=3000, actions=A, **M),
           # d: the direct calls of the --api histories on the specification (swap_subtrees for ANY two disjoint subtrees, move_subtree
           # for any path >= 4 with total / selective clearing, sort_nhds, compute_ranks), order-normalised, + InvQueries
           dict(name="direct", cfg="MC_RankTree_d.cfg", timeout=3000, actions=("ASwapDirect", "AMoveDirect", "ASortNhds"), **M)]
    if not q:
        # t: order-normalised C5 K4P P5;  a: annealer loop exact on P3 C4;  a5: annealer loop normalised up to C5 K4P
        mcs += [dict(name="tree5", cfg="MC_RankTree_t.cfg", timeout=3000, actions=MOVES, **M),
                dict(name="anneal_exact", cfg="MC_RankTree_a.cfg", timeout=3000, **M),
                dict(name="anneal5", cfg="MC_RankTree_a5.cfg", timeout=3000, **M),
                dict(name="direct_exact", cfg="MC_RankTree_dx.cfg", timeout=3000, **M)]      # the same in the code's exact neighbour order
    T = dict(engine="ranktree", module="Trace_RankTree.tla", cfg="Trace_RankTree.cfg", shards=W)
    traces = [
        # --api: direct swap_subtrees / move_subtree / set_rank / compute_ranks / partition / path / edges / sort_nhds calls with
        # caller-chosen arguments, hand-built trees, set_init_decomp, rank_decomp (audit #16); every third group on hash_graph
        dict(name="hist", args=["--fixed", "--histories", 250 if q else 4000, "--moves", 30 if q else 40, "--api", 100 if q else 1500], **T),
        # --annealbig: short runs (10 / 20 / 50 iterations) on 14..32 vertices, where the accepted tree at the end of the run is
        # often worse than the best one seen: AnnealNoWorse (returned tree no wider than the starting tree) is sharp there
        dict(name="anneal", args=["--fixed", "--anneal", 120 if q else 3000, "--annealbig", 300 if q else 4000], **T),
    ]
    if not q:
        traces += [dict(name="long", args=["--histories", 250, "--moves", 250], **T),
                   dict(name="big", args=["--histories", 250, "--moves", 40, "--anneal", 100, "--maxn", 12], **T)]
    return run_plan(prop, tier, seed, t0, mcs, traces, "model_checking", ASSUME,
                    "MC: from the caterpillar decomposition of each graph with an empty cache, every sequence of the three transcribed "
                    "moves under every choice of their random arguments, interleaved with compute_ranks at any point (the cache is part "
                    "of the state): ValidTree, CacheCoherent, WidthOK, NoPanic in every state; the annealer loop (acceptance = coin, may "
                    "stop after any iteration) started from the tree machine: AnnealerOK in every state. TRACE: one execution = one "
                    "graph + random_decomp + a seeded sequence of the real random moves interleaved with rankwidth()/rankwidth_score(), "
                    "or an annealer run (grid: iterations x temperatures/cooling x adaptive on/off x both constructors); the FULL node "
                    "array and cache are logged after every call and TLC evaluates ValidTree / CacheCoherent / WidthOK / AnnealValid / "
                    "AnnealNoWorse with its own cut ranks; direct calls (--api): swap_subtrees / move_subtree with caller-chosen valid "
                    "arguments (validity of the arguments decided by the spec on the logged pre-state), set_rank / clear_rank / rank in both "
                    "key orders, compute_ranks, partition / path / edges / num_edges judged by definition, sort_nhds, trees built with "
                    "add_leaf / add_interior, annealer started through set_init_decomp (AnnealNoWorse against the installed tree), "
                    "rankwidth::rank_decomp; graphs in vec_graph and hash_graph; non-trivial = moves that changed the array, width queries that filled the "
                    "cache, annealer runs with at least one iteration")


META = dict(
    level="model_checking", engine="ranktree", design_ref="DESIGN.md section 3 C18",
    technique="explicit TLA+ specification; TLC exhaustive model checking of the spec + TLC trace validation of recorded executions of the real code",
    text="spec/RankTree.tla transcribes swap_random_leaves / random_local_swap / move_random_subtree (with swap_subtrees, move_subtree, "
         "replace_neighbor, other_neighbor, path) on the node array together with the cache entries each of them clears, compute_ranks "
         "with its size-based early exit, rankwidth / rankwidth_score and the annealer loop, and defines ValidTree (cubic, connected, "
         "acyclic, leaves biject with the vertices), CacheCoherent (every cached entry lies on a current tree edge and equals the F2 rank "
         "of the adjacency submatrix of that edge's current partition), WidthOK and AnnealerOK. TLC exhausts all reachable (tree, cache) "
         "states for every move argument on small graphs, and validates every state the real code goes through in seeded histories and "
         "annealer runs (full node array and full cache after every call), with a refinement check (L1) that each logged post-state is a "
         "result of the transcribed move.",
    note="exhaustive: all graphs listed in the configs with 3-4 vertices in the code's exact neighbour order, 5-6 vertices modulo neighbour "
         "order (random_local_swap's order-dependent choice of d over-approximated); traces: 2..8 (thorough: 12) vertices, and short "
         "annealer runs (10-50 iterations) on 14..32 vertices. The annealer's "
         "floating-point acceptance is a coin in the spec; temperatures <= 0 are not exercised. Annealer getters and init_decomp() "
         "read-back are compared as L1 drift only (ParamReadback). Two recorded defects: panics on two-vertex "
         "graphs (swap_random_leaves) and on edgeless graphs with adaptive cooling (NaN).")

ENGINE = {"name": "ranktree",
          "path": "spec/RankTree.tla mc/MC_RankTree.tla mc/Trace_RankTree.tla harness/src/eng_ranktree.rs",
          "serves_properties": ["C18"],
          "kind_free_text": "TLC exhaustive (tree moves x cut-rank cache, annealer loop) + trace validation of move histories and annealer runs"}
