#!/bin/sh
# usage: bin/seedcheck.sh <name> <worktree-of-repo-with-a-change-applied> <ID> [<ID> ...]
# runs the quick checks of the listed properties against that worktree (never against /repo), logs to work/seed_<name>_<ID>.log
set -e
n="$1"; wt="$2"; shift 2
mkdir -p /tmp/h_$n
rsync -a --delete --exclude target /verif/harness/ /tmp/h_$n/
sed -i "s#path = \"/repo/quizx\"#path = \"$wt/quizx\"#" /tmp/h_$n/Cargo.toml
cp "$wt/Cargo.lock" /tmp/h_$n/Cargo.lock 2>/dev/null || true
for id in "$@"; do
  (cd /verif && VERIF_ALL_PLANS=1 VERIF_HARNESS_DIR=/tmp/h_$n bin/check $id quick > /verif/work/seed_${n}_$id.log 2>&1; echo "rc=$?" >> /verif/work/seed_${n}_$id.log) || true
  tail -n 3 /verif/work/seed_${n}_$id.log
done
