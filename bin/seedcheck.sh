#!/bin/sh
# usage: bin/seedcheck.sh <name> <patch.diff | dir containing patch.diff> <ID> [<ID> ...]
# Applies the seeded change to a fresh scratch worktree of /repo's HEAD (never to /repo itself), runs the quick
# checks of the listed properties against it with a private copy of the harness, logs to
# work/seed_<name>_<ID>.log, and removes the worktree, the harness copy and their build output.
set -e
n="$1"; p="$2"; shift 2
[ -d "$p" ] && p="$p/patch.diff"
wt=/tmp/sc_$n
git -C /repo worktree remove --force $wt 2>/dev/null || true; rm -rf $wt /tmp/h_$n
git -C /repo worktree add --detach $wt HEAD > /dev/null 2>&1
git -C $wt apply "$p"
mkdir -p /tmp/h_$n
rsync -a --delete --exclude target /verif/harness/ /tmp/h_$n/
sed -i "s#path = \"/repo/quizx\"#path = \"$wt/quizx\"#" /tmp/h_$n/Cargo.toml
cp "$wt/Cargo.lock" /tmp/h_$n/Cargo.lock 2>/dev/null || true
for id in "$@"; do
  (cd /verif && VERIF_ALL_PLANS=1 VERIF_HARNESS_DIR=/tmp/h_$n bin/check $id quick > /verif/work/seed_${n}_$id.log 2>&1; echo "rc=$?" >> /verif/work/seed_${n}_$id.log) || true
  tail -n 3 /verif/work/seed_${n}_$id.log
done
git -C /repo worktree remove --force $wt 2>/dev/null || true
rm -rf $wt /tmp/h_$n /verif/work/mut_h_$n
