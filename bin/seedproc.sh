#!/bin/sh
# usage: bin/seedproc.sh <seed-id> <ID> [<ID> ...]   verify a seeded change left by an agent in /tmp/seed_<seed-id>, run the listed quick checks
# against it (fresh worktree + patch), keep it under seeded/<seed-id>/ and remove the agent's worktree
cd /verif
sid="$1"; shift
n=$(echo "$sid" | tr -d '_' | tr 'C' 's')
wt=/tmp/seed_$sid
[ -f $wt/patch.diff ] || { echo "$sid: no patch.diff"; exit 2; }
bin/seedverify.sh $wt > work/seedverify_$sid.log 2>&1
bin/seedcheck.sh $n $wt "$@" > /dev/null 2>&1
logs=""; for id in "$@"; do logs="$logs work/seed_${n}_$id.log"; done
python3 bin/seedkeep.py $sid $wt work/seedverify_$sid.log $logs
git -C /repo worktree remove --force $wt 2>/dev/null; rm -rf $wt
