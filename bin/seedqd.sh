#!/bin/sh
# queue daemon: processes lines "<seed-id> <ID> [<ID> ...]" appended to ${QF:-work/seedq.txt}, one at a time; stop with `touch work/seedq.stop`
cd /verif
touch ${QF:-work/seedq.txt}; done_n=0
while [ ! -f work/seedq.stop ]; do
  total=$(wc -l < ${QF:-work/seedq.txt})
  if [ "$done_n" -lt "$total" ]; then
    done_n=$((done_n + 1))
    line=$(sed -n "${done_n}p" ${QF:-work/seedq.txt})
    [ -n "$line" ] && VERIF_PAR=${VERIF_PAR:-8} bin/seedproc.sh $line >> work/seedq.log 2>&1
  else
    sleep 20
  fi
done
