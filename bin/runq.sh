#!/bin/sh
# usage: bin/runq.sh <tier> <ID> [<ID> ...]   run checks one after the other, log to work/run_<tier>_<ID>.log with an rc= line
cd /verif
tier="$1"; shift
for id in "$@"; do
  s=$(date +%s)
  bin/check $id $tier > work/run_${tier}_$id.log 2>&1; rc=$?
  echo "rc=$rc wall=$(( $(date +%s) - s ))s" >> work/run_${tier}_$id.log
done
