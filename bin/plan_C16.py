"""C16 - phases: canonical representative modulo 2, group laws, classification, limit_denominator.

MC     mc/MC_Phase.tla   the specification spec/Phase.tla on a bounded family (NormImpl = Norm, range,
                         uniqueness, group laws, classification, LimitDenImpl = LimitDenDecl)
TRACE  engine `phase` (harness/src/eng_phase.rs) -> mc/Trace_Phase.tla
       exh   every n/d of a box: new (both sign conventions), preds, neg, cmp, integer multiples,
             limit_denominator for every bound, sampled add/sub; Div<i64>, normalize(), Display, and per sampled partner
             Mul<Phase> / Div<Phase>, each through the operator and its assign form, preds on every result
       rand  seeded histories on a 4-register machine + f64 round trips + the 2^40 batch (harness-side)
At most 8 TLC workers / 8 shards at a time."""
import glob, json, os
from fractions import Fraction
from vlib import *

TECH = "explicit TLA+ specification; TLC exhaustive model checking of the spec + TLC trace validation of recorded executions of the real code"

META = dict(
    level="model_checking", engine="phase", design_ref="DESIGN.md section 3 C16", technique=TECH,
    text="spec/Phase.tla defines rationals as coprime integer pairs, the canonical representative Norm declaratively (THE translate by an "
         "even integer in (-1,1]) and Phase::normalize transcribed (fast path, rem_euclid path, re-normalisation through From), the group "
         "operations, the code's classification predicates and their meaning on the class, and limit_denominator twice: the continued-"
         "fraction loop of phase/utils.rs transcribed and declaratively (closest p/k with k <= m, ties to the smaller denominator = "
         "CPython's `bound2 if |bound2-q| <= |bound1-q|`). TLC exhausts NormImpl = Norm, range, uniqueness under +2k, identity / inverse / "
         "commutativity / associativity, agreement with rational arithmetic on raw representatives, MulInt = repeated addition, "
         "classification invariance and LimitDenImpl = LimitDenDecl over a box of raw pairs n/d, second and third operands, multipliers "
         "and bounds (MC_Phase). Every result of the real Phase::new / From<(i64,i64)> / From<i64> / + / += / - / -= / neg / * i64 / *= / "
         "limit_denominator / is_* / == on an exhaustive box and on seeded register-machine histories is validated by TLC against Norm of "
         "the exact rational result and the declarative best-approximation predicate. Mul<Phase>, Div<Phase>, Div<i64> and *= /= (which "
         "act on the stored representatives, not on classes) and normalize() on a value are run on the same inputs and judged for what "
         "the property says about every stored phase: canonical result, operator = assign form, class predicates of the result.",
    note="TLC integers are 32 bit: operands in traces stay below 2^15; operands up to 2^40 are run but judged by the harness only (range, "
         "reducedness, congruence modulo 2 in i128) and operands near the 64-bit limit are not covered; the f64 round trip is a harness-side "
         "1e-12 comparison (floats are outside TLA+); Phase::new on a REDUCED fraction written with a negative denominator (Ratio::new_raw(n, -d)) is judged "
         "(RawCanonical, RawClassified: \"negative denominators\" are named in the property); UNREDUCED raw ratios break num::Ratio's own invariant and are "
         "recorded as an observation only; an uncatchable crash (stack overflow) is detected by a dry run in a child "
         "process and reported as a NoCrash violation")

ENGINE = {"name": "phase", "path": "spec/Phase.tla mc/MC_Phase.tla mc/Trace_Phase.tla harness/src/eng_phase.rs",
          "serves_properties": ["C16"],
          "kind_free_text": "TLC exhaustive normalisation / group laws / best-approximation + trace validation of a phase register machine"}


def _norm(q):
    """representative in (-1, 1] modulo 2 (Python big rationals; spec cross-check only)"""
    r = q % 2
    return r - 2 if r > 1 else r


def _python_crosscheck(prop):
    """Not a verdict: every logged limit_denominator result is compared with CPython's
    Fraction.limit_denominator on the logged operand (av).  The number of disagreements must equal
    the number of limit events TLC rejected with the declarative predicate (stats.limit_bad); otherwise the
    specification's tie rule is not Python's and the run is a tool error."""
    checked = mismatch = 0
    for shard in sorted(glob.glob(os.path.join(WORK, prop, "tr_*.ndjson"))):
        with open(shard) as f:
            for line in f:
                if '"k":"limit"' not in line:
                    continue
                e = json.loads(line)
                if e.get("res") != "ok":
                    continue
                an, ad = e["av"]
                if not (ad > 0 and -ad < an <= ad and Fraction(an, ad).denominator == ad):
                    continue   # a non-canonical operand: the after-effect of an earlier violation (TLC skips it in limit_bad too)
                want = _norm(Fraction(e["av"][0], e["av"][1]).limit_denominator(e["m"]))
                n, d = e["out"]
                checked += 1
                if not (d > 0 and Fraction(n, d) == want and want.denominator == d):
                    mismatch += 1
    return checked, mismatch


def plan(prop, tier, seed, t0):
    from plans import run_plan, COMMON_ASSUME
    q = tier == "quick"
    mcs = [dict(name="phase", module="MC_Phase.tla", cfg="MC_Phase_q.cfg" if q else "MC_Phase_t.cfg",
                workers=8, timeout=3000 if q else 9000)]
    T = dict(module="Trace_Phase.tla", cfg="Trace_Phase.cfg", shards=8)
    traces = [
        dict(name="exh", engine="phase", args=["--exhaustive", "40,24" if q else "120,60", "--maxm", 12 if q else 24,
                                               "--pairs", 2 if q else 3, "--raw"], **T),
        dict(name="rand", engine="phase", args=["--random", 800 if q else 12000, "--floats", 800 if q else 20000,
                                                "--big", 4000 if q else 200000], **T),
    ]
    assume = [a for a in COMMON_ASSUME if "ZXSem" not in a and "abs()" not in a] + [
        "operands validated by TLC are below 2^15 (32-bit TLC integers); operands up to 2^40 are judged by the harness "
        "(range, reducedness, congruence in i128); operands near the 64-bit limit are NOT covered",
        "the f64 round trip is decided by the harness (|to_f64(from_f64(f)) - f mod 2| <= 1e-12, |f| <= 1000), not by TLC",
        "Phase::new on UNREDUCED Ratio::new_raw inputs is outside the quantifier: observed (trace_stats.raw_*), not judged; reduced fractions "
        "with a negative denominator are judged",
    ]

    def extra(stats, groups):
        checked, mismatch = _python_crosscheck(prop)
        cov = {"python_fraction_crosscheck": {"limit_events": checked, "disagree_with_python": mismatch,
                                              "rejected_by_tlc": stats.get("limit_bad", 0)},
               "uncovered": ["operands near the 64-bit limit (TLC integers are 32 bit; 2^40 batch judged by the harness only)",
                             "Mul<Phase>, Div<Phase>, Div<i64>: not well defined modulo 2, so WHICH class results is not part of the "
                             "property (compared with the product / quotient of the representatives as L1 only); judged: canonical "
                             "result, operator = assign form, classification of the result; division by the zero phase / by 0 panics "
                             "in num::Ratio and is only counted (trace_stats.div_by_zero*)",
                             "Display for Phase: executed, compared with num::Ratio's text as L1 only (no format is promised)"]}
        if mismatch != stats.get("limit_bad", 0):
            raise ToolError(f"limit_denominator: {mismatch} logged results differ from CPython's Fraction.limit_denominator but TLC's "
                            f"declarative predicate rejected {stats.get('limit_bad', 0)}: the specification's tie rule is not Python's")
        return cov

    return run_plan(prop, tier, seed, t0, mcs, traces, "model_checking", assume,
                    "MC: every raw pair n/d of the box x {sign conventions, +2k, every multiplier, every bound, every second operand, "
                    "sampled third operands} on the specification; TRACE: one execution = a block of 16 enumerated inputs with all unary "
                    "operations, all bounds and sampled partners, or one seeded history of ~30 operations on 4 phase registers; every "
                    "logged result is decided in TLC by out = Norm(exact rational result), Canonical(out), IsBestApprox, class predicates "
                    "(Mul<Phase> / Div<Phase> / Div<i64>: Canonical(out) and out = the assign form's result); "
                    "non-trivial = results that needed wrapping, approximations with d > m, definite classifications, equal-class comparisons",
                    extra_cov_fn=extra)
