#!/usr/bin/env python3
"""regenerate DESIGN.md section 9 (between the GENERATED markers) from seeded/*/meta.json and seeded/selftest.json"""
import json, glob, os, re

V = "/verif"
out = []
out.append("### 9.1 Independently seeded breaking changes\n")
out.append("Each change below was written by a fresh sub-agent that was given ONLY the text of one property and its own scratch\n"
           "worktree of /repo (prompt: `seeded/PROMPT.txt`), never anything from /verif (from round e on also the one-line summaries of the changes already written for that property, so that the new one is at a different site; round f additionally asked for violations that depend on a history or a combination: `bin/seedprompts.py`). A change is kept only after I confirmed, in a\n"
           "scratch worktree, that it compiles, that the ENTIRE existing test suite still passes with it, and that its demonstration\n"
           "(`seeded/<id>/demo.rs`) fails with it and passes without it (`bin/seedverify.sh`). The checks were then run against a fresh\n"
           "worktree of /repo's HEAD with the patch applied (`bin/seedcheck.sh`; /repo itself is never touched) - the `quick` tier only.\n"
           "`seeded/<id>/meta.json` records what the change needs in order to manifest and what was run.\n")
rows = []
missed_then = []
other_only = []
n = det = 0
for f in sorted(glob.glob(V + "/seeded/*/meta.json")):
    m = json.load(open(f))
    sid = os.path.basename(os.path.dirname(f))
    n += 1
    cks = []
    final_caught = False
    for c in m.get("checks_run_against_it", []):
        res = c["result"].split(" in ")[0]
        note = f" ({c['note']})" if c.get("note") else ""
        cks.append(f"{c['check']}: exit {c['exit']}, {res}{note}")
        if c["exit"] == 1:
            final_caught = True
    own = [c for c in m.get("checks_run_against_it", []) if c["check"] == m["property"]]
    if own and own[0]["exit"] != 1 and any(c["exit"] == 1 for c in own):
        missed_then.append(sid)
    elif own and own[0]["exit"] == 1 and "would have" in (own[0].get("note") or "").lower().replace("would have missed", "would have"):
        missed_then.append(sid + "*")
    det += 1 if final_caught else 0
    if final_caught and own and not any(c["exit"] == 1 for c in own):
        other_only.append(sid)
    ok = m.get("confirmed_by_coordinator", {})
    conf = "yes" if all(ok.get(k) for k in ("demo_fails_with_change", "demo_passes_without_change", "full_suite_passes_with_change")) else "NO"
    rows.append(f"| {sid} | {m['property']} | {m['summary'][:260].replace('|', '/')} | {conf} | {'; '.join(cks).replace('|', '/')} |")
out.append(f"\n{n} changes kept, {det} detected by the quick tier of a registered check (the property's own check, except where the notes say otherwise)"
           + (f" ({', '.join(missed_then)} only after the check was strengthened; * = strengthened after reading what the change needs and before the first run - see the notes in the last column and section 10.5)" if missed_then else "") + (f" Detected only by the check of another property: {', '.join(other_only)}." if other_only else "") + ".\n")
out.append("\n| seed | property | change | confirmed | checks run against it (quick tier) |\n|---|---|---|---|---|\n" + "\n".join(rows) + "\n")

st = V + "/seeded/selftest.json"
if os.path.exists(st):
    T = json.load(open(st))
    out.append("\n### 9.2 Binding self-test: corrupt one recorded field\n")
    out.append("`bin/selftest.py` takes the head of a recorded shard of every trace of a property's last run, validates it unchanged, then\n"
               "corrupts ONE leaf of ONE event that reports what the code did (a number +1, a boolean flipped, an edge / vertex type or\n"
               "result word swapped) and validates again. *Rejected* = the trace specification reports more violations, more drift, or\n"
               "refuses the file. Corruptions that go unnoticed hit fields the specification does not read (identifiers used only for\n"
               "reporting, redundant copies, inputs whose change yields another valid execution).\n")
    out.append("\n| property | trace | trace spec | corruptions | rejected | as violation / drift / refused | unnoticed fields |\n|---|---|---|---|---|---|---|\n")
    tt = rr = 0
    for r in T:
        if "error" in r:
            out.append(f"| {r['property']} | {r['trace']} | - | - | - | {r['error'][:80]} | |\n")
            continue
        tt += r["corruptions_tried"]
        rr += r["rejected"]
        un = ", ".join(sorted({f"{u['event']}.{re.sub(r'/[0-9]+', '[]', u['path'])}" for u in r["unnoticed"]}))[:160]
        h = r["how"]
        out.append(f"| {r['property']} | {r['trace']} | {r['trace_spec']} | {r['corruptions_tried']} | {r['rejected']} | "
                   f"{h['more_violations']} / {h['more_drift']} / {h['refused']} | {un} |\n")
    out.append(f"\nTotal: {rr} of {tt} single-field corruptions rejected.\n")

s = open(V + "/DESIGN.md").read()
a = s.index("<!-- BEGIN GENERATED section 9")
a = s.index("\n", a) + 1
b = s.index("<!-- END GENERATED section 9 -->")
s = s[:a] + "".join(out) + s[b:]
open(V + "/DESIGN.md", "w").write(s)
print("section 9 regenerated:", n, "seeds,", det, "detected")
