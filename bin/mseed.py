#!/usr/bin/env python3
"""usage: bin/mseed.py <ID> <trace name> <seed> [<seed> ...]   record + validate ONE trace of a property's plan for several seeds
(TIER=quick|thorough in the environment); prints violations / drift per seed. Run every NEW trace with several seeds before committing it:
two false alarms (DESIGN.md 10.4) came from traces that had only been tried with VERIF_SEED=1. Violations are printed unclassified
(known findings are not filtered here)."""
import sys, os, json
sys.path.insert(0, '/verif/bin')
os.environ.setdefault("VERIF_PAR", "6")
from vlib import *
import plans
# usage: mseed.py PROP TRACE seed [seed...]   : record + validate one trace of PROP's quick plan for several seeds
prop, tname = sys.argv[1], sys.argv[2]
captured = {}
def fake_run_plan(prop_, tier, seed, t0, mcs, traces, *a, **k):
    captured["traces"] = traces
    return 0
plans.run_plan = fake_run_plan
for mod in ("plan_C13", "plan_C14", "plan_C16", "plan_C17", "plan_C18", "plan_C19", "plan_C20"):
    try:
        m = __import__(mod)
    except Exception:
        pass
fn = plans.PLANS.get(prop) or __import__("plan_" + prop).plan
tier = os.environ.get("TIER", "quick")
fn(prop, tier, 1, 0)
tr = [t for t in captured["traces"] if t["name"] == tname][0]
for seed in sys.argv[3:]:
    prefix = f"/verif/work/scr/ms/{prop}_{tname}_{seed}/t"
    os.makedirs(os.path.dirname(prefix), exist_ok=True)
    summ = record(tr["engine"], prefix, tr.get("shards", 12), ["--seed", seed] + list(tr["args"]), 3000)
    res = validate("X" + prop, tr["module"], tr["cfg"], prefix, 3000)
    nv = sum(len(r["viol"]) for r in res)
    nd = sum(len(r["drift"]) for r in res)
    first = next((r["viol"][0] for r in res if r["viol"]), None)
    print(f"{prop} {tname} seed={seed}: groups={summ['groups']} lines={summ['lines']} viol={nv} drift={nd} first={first}", flush=True)
