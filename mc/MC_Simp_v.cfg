CONSTANTS K = 2
TYS = {"Z","X"}
PHS = {0,1,2,4}
ETS = {"N","H"}
NB = 2
VARS = {0,1}
BB = FALSE
STRAT = "full"
INIT Init
NEXT Next
INVARIANT Sound
INVARIANT NoPanicInv
INVARIANT StaysWF
CHECK_DEADLOCK FALSE
