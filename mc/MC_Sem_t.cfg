CONSTANTS K = 3
TYS = {"Z","X"}
PHS = {0,1,2,4,7}
ETS = {"N","H"}
NB = 1
VARS = {}
BB = FALSE
INIT Init
NEXT Next
INVARIANT Agree
INVARIANT ColourInv
INVARIANT WF
CHECK_DEADLOCK FALSE
