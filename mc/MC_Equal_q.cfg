CONSTANTS NQ = 1
MAXLEN = 2
ONEQ = {"S", "T", "Z", "NOT", "HAD"}
TWOQ = {}
PHS = {7}
INIT Init
NEXT Next
INVARIANT Composite
INVARIANT DefOK
INVARIANT GadgetIsPhase
CHECK_DEADLOCK FALSE
