CONSTANTS N = 6
MAXF = 2
FULLMAX = 1
STABN = 4
ORDERED = FALSE
INIT Init
NEXT Next
INVARIANT PromiseEveryShift
INVARIANT NegativeControl
INVARIANT ShapeAccepts
INVARIANT SharpAmplitude
INVARIANT ZeroColumn
INVARIANT StabSpecOK
INVARIANT StabNegControl
INVARIANT LayerAdjointInverts
INVARIANT ExamplesJudged
CHECK_DEADLOCK FALSE
