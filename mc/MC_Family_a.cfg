CONSTANTS K = 2
TYS = {"Z","X"}
PHS = {0,1,2,4,7}
ETS = {"N","H"}
NB = 2
VARS = {}
BB = FALSE
INIT Init
NEXT Next
INVARIANT Emit
CHECK_DEADLOCK FALSE
