CONSTANTS K = 3
TYS = {"Z","X"}
PHS = {0,1,4}
ETS = {"N","H"}
NB = 1
VARS = {}
BB = TRUE
SCN = 1
CMS = {"zero","distinct"}
MUT = "none"
INIT Init
NEXT Next
INVARIANT NoPanicRT
INVARIANT DocOK
INVARIANT RoundTripIso
INVARIANT RoundTripDen
INVARIANT ScalarRT
INVARIANT DecodeOrder
INVARIANT IsoAgree
INVARIANT IsoSharp
CHECK_DEADLOCK FALSE
