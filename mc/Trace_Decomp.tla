---------------------------- MODULE Trace_Decomp ----------------------------
(* C05: validation of recorded decomposition steps, complete decomposer runs and saved terms.
   reset : the diagram g0; Den(g0) is computed once
   step  : terms returned by one apply_decomp(g0, d) (through the guarded re-export; be = "hash": on the hash backend)
           L2 StepSumOK: the terms' denotations sum to Den(g0);  L1: terms = the transcription's
   run   : Decomposer::{decompose, decompose_parallel, decompose_standard} under one configuration (driver, simplification,
           component splitting, pool size, backend, Sherlock tries): L2 ScalarOK: scalar() = the number g0 denotes, exact, not
           flagged approximate; no panic, no time-out.  (Equality of all runs with Den(g0) gives the
           parallel = sequential and method-independence clauses.)  via = "reuse": the run was made by a Decomposer::empty()
           that had already decomposed other targets (set_target): the previous target's result must not leak.
   two   : decompose_until_depth(depth) followed by a finishing decompose / decompose_parallel (same or another driver) on a
           clone of the partially decomposed Decomposer: L2 TwoStageScalarOK: the final scalar() = the number g0 denotes
           (with component splitting the stored tree contains product nodes: spec/Decomp.tla TreeVal / ReduceTree,
           model-checked in MC_DecompTree).  The partial tree itself is private: every completion of it is judged instead.
   saved : the terms saved (with_save) for a diagram with outputs by the BSS-type drivers
           L2 SavedTermsOK: every term is Clifford and the terms' linear maps sum to Den(g0).  Judged for the sequential,
           unsplit decomposer (one or two stages, either backend, re-used: the terms the target added).  Saving combined
           with decompose_parallel or component splitting is outside the clause's quantifier (see SaveParallel).
   info  : never judged (statistics): max_terms vs nterms, the partial state, decompose_until_depth called twice,
           Sherlock parameters without a candidate, scalar() of an empty decomposer *)
EXTENDS TraceLib, Decomp, FiniteSets, FiniteSetsExt
VARIABLES l, g0, den0, viol, drift, stats
vars == <<l, g0, den0, viol, drift, stats>>
\* The saved-terms clause is quantified over "all graph-like diagrams with outputs and the BSS-only and BSS+cats drivers",
\* not over the parallel / splitting modes, and the code does not keep it there:
\*  - with component splitting the saved terms are terms of single components (a product of sums cannot be a flat list),
\*    and on a diagram with outputs the component sub-diagrams lose their outputs, so the run panics ("graph was not fully
\*    reduced"): never judged, counted in saved_other_modes / saved_other_modes_bad;
\*  - decompose_parallel works on clones whose `done` (and `nterms`) are dropped, so terms are missing.
\* SWITCH (OFF): SaveParallel = TRUE demands SavedTermsOK for with_save + decompose_parallel (without splitting) too; it
\* holds once the optional patch work/gD_fix_2_optional.diff (clones hand their saved terms and counts back) is applied.
SaveParallel == FALSE
Init == l = 1 /\ g0 = EmptyG /\ den0 = <<>> /\ viol = <<>> /\ drift = <<>>
        /\ stats = [hosts |-> 0, steps |-> 0, runs |-> 0, saved |-> 0, nontrivial |-> 0, l1same |-> 0,
                    two_stage |-> 0, two_stage_split |-> 0, reuse_runs |-> 0, hash_events |-> 0, standard_runs |-> 0, sherlock_tries |-> 0,
                    saved_other_modes |-> 0, saved_other_modes_bad |-> 0, terms_bound_seen |-> 0, terms_bound_exceeded |-> 0,
                    partial_states |-> 0, partial_ready |-> 0, until_depth_twice |-> 0, until_depth_twice_panics |-> 0,
                    sherlock_degenerate |-> 0, sherlock_degenerate_panics |-> 0]
B2N(b) == IF b THEN 1 ELSE 0
Flag(e, f) == Has(e, f) /\ e[f]
IsHash(e) == Has(e, "be") /\ e.be = "hash"
SameUpToNew3(spec, impl, old) ==
  LET ns == spec.vs \ old
      ni == impl.vs \ old
  IN /\ Cardinality(ns) = Cardinality(ni) /\ spec.vs \cap old = impl.vs \cap old
     /\ IF ns = {} THEN spec = impl
        ELSE Cardinality(ns) <= 3 /\ \E m \in {f \in [ns -> ni] : \A x, y \in ns : x # y => f[x] # f[y]} :
               Rename(spec, [v \in spec.vs |-> IF v \in ns THEN m[v] ELSE v]) = impl
Step(e) ==
  CASE e.k = "reset" ->
         LET g == FromAbs(e.pre) IN
         g0' = g /\ den0' = Den(g) /\ stats' = [stats EXCEPT !.hosts = @ + 1] /\ UNCHANGED <<viol, drift>>
    [] e.k = "step" ->
         IF e.res # "ok" THEN
           viol' = Append(viol, <<l, "NoPanic", e.decomp.kind, e.via>>) /\ stats' = [stats EXCEPT !.steps = @ + 1] /\ UNCHANGED <<g0, den0, drift>>
         ELSE
           LET terms == [i \in 1..Len(e.terms) |-> FromAbs(e.terms[i])]
               ok == SumDen(terms) = den0
               d == [kind |-> e.decomp.kind, vs |-> e.decomp.vs]
               spec == ApplyDecomp(g0, d)
               same == Len(spec) = Len(terms) /\ \A i \in 1..Len(terms) : SameUpToNew3(spec[i], terms[i], g0.vs)
           IN /\ viol' = IF ok THEN viol ELSE Append(viol, <<l, "StepSumOK", e.decomp.kind, e.via>>)
              /\ drift' = IF same THEN drift ELSE Append(drift, <<l, "ApplyDecomp", e.decomp.kind>>)
              /\ stats' = [stats EXCEPT !.steps = @ + 1, !.nontrivial = @ + 1, !.l1same = @ + (IF same THEN 1 ELSE 0),
                                        !.hash_events = @ + B2N(IsHash(e))]
              /\ UNCHANGED <<g0, den0>>
    [] e.k = "run" ->
         /\ viol' = IF e.res = "panic" THEN Append(viol, <<l, "NoPanic", e.driver, e.simp>>)
                    ELSE IF e.res = "timeout" THEN Append(viol, <<l, "Terminates", e.driver, e.simp>>)
                    ELSE IF ~e.approx /\ ScFromAbs(e.scalar) = den0[<<>>] THEN viol
                    ELSE Append(viol, <<l, "ScalarOK", e.driver, e.simp>>)
         \* L1 (drift only): max_terms() of a fresh Decomposer is terms_for_tcount(tcount): the BSS bound of spec/Decomp.tla
         /\ drift' = IF e.res = "ok" /\ Has(e, "max_terms") /\ e.max_terms >= 0 /\ TCount(g0) <= 24 /\ e.max_terms # TermsForTCount(TCount(g0))
                     THEN Append(drift, <<l, "MaxTerms", e.driver>>) ELSE drift
         /\ stats' = [stats EXCEPT !.runs = @ + 1, !.nontrivial = @ + (IF TCount(g0) > 0 THEN 1 ELSE 0),
                                   !.reuse_runs = @ + B2N(Has(e, "via") /\ e.via = "reuse"),
                                   !.hash_events = @ + B2N(IsHash(e)),
                                   !.standard_runs = @ + B2N(e.driver = "standard"),
                                   !.sherlock_tries = @ + B2N(Has(e, "tries")),
                                   !.terms_bound_seen = @ + B2N(e.res = "ok" /\ Has(e, "max_terms") /\ e.max_terms >= 0 /\ ~e.par),
                                   !.terms_bound_exceeded = @ + B2N(e.res = "ok" /\ Has(e, "max_terms") /\ e.max_terms >= 0 /\ ~e.par /\ e.nterms > e.max_terms)]
         /\ UNCHANGED <<g0, den0>>
    [] e.k = "two" ->
         /\ viol' = IF e.res = "panic" THEN Append(viol, <<l, "NoPanic", e.driver, e.simp>>)
                    ELSE IF e.res = "timeout" THEN Append(viol, <<l, "Terminates", e.driver, e.simp>>)
                    ELSE IF ~e.approx /\ ScFromAbs(e.scalar) = den0[<<>>] THEN viol
                    ELSE Append(viol, <<l, "TwoStageScalarOK", e.driver, e.simp>>)
         /\ stats' = [stats EXCEPT !.two_stage = @ + 1, !.nontrivial = @ + (IF TCount(g0) > 0 THEN 1 ELSE 0),
                                   !.two_stage_split = @ + B2N(e.split /\ e.depth >= 1 /\ Cardinality(DComponents(g0)) > 1),
                                   !.hash_events = @ + B2N(IsHash(e))]
         /\ UNCHANGED <<g0, den0, drift>>
    [] e.k = "saved" ->
         LET other == Flag(e, "par") \/ Flag(e, "split")
             judged == ~other \/ (SaveParallel /\ ~Flag(e, "split"))
             ok == /\ e.res = "ok"
                   /\ LET terms == [i \in 1..Len(e.terms) |-> FromAbs(e.terms[i])] IN
                      Len(terms) > 0 /\ (\A i \in 1..Len(terms) : TCount(terms[i]) = 0) /\ SumDen(terms) = den0
         IN
         /\ viol' = IF ~judged THEN viol
                    ELSE IF e.res # "ok" THEN Append(viol, <<l, "NoPanic", e.driver, e.simp>>)
                    ELSE IF ok THEN viol
                    ELSE Append(viol, <<l, "SavedTermsOK", e.driver, e.simp>>)
         /\ stats' = [stats EXCEPT !.saved = @ + 1, !.nontrivial = @ + 1, !.hash_events = @ + B2N(IsHash(e)),
                                   !.saved_other_modes = @ + B2N(other), !.saved_other_modes_bad = @ + B2N(other /\ ~ok)]
         /\ UNCHANGED <<g0, den0, drift>>
    [] e.k = "info" ->
         /\ stats' = [stats EXCEPT !.partial_states = @ + B2N(e.what = "partial"),
                                   !.partial_ready = @ + B2N(e.what = "partial" /\ e.ready1),
                                   !.until_depth_twice = @ + B2N(e.what = "until_depth_twice"),
                                   !.until_depth_twice_panics = @ + B2N(e.what = "until_depth_twice" /\ e.res # "ok"),
                                   !.sherlock_degenerate = @ + B2N(e.what = "sherlock_degenerate"),
                                   !.sherlock_degenerate_panics = @ + B2N(e.what = "sherlock_degenerate" /\ e.res # "ok")]
         /\ UNCHANGED <<g0, den0, viol, drift>>
Next == \/ /\ l <= NLines /\ Step(Rec[l]) /\ l' = l + 1
        \/ /\ l = NLines + 1 /\ Report(l, viol, drift, stats) /\ l' = l + 1 /\ UNCHANGED <<g0, den0, viol, drift, stats>>
=============================================================================
