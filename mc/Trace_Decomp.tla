---------------------------- MODULE Trace_Decomp ----------------------------
(* C05: validation of recorded decomposition steps, complete decomposer runs and saved terms.
   reset : the diagram g0; Den(g0) is computed once
   step  : terms returned by one apply_decomp(g0, d) (through the guarded re-export)
           L2 StepSumOK: the terms' denotations sum to Den(g0);  L1: terms = the transcription's
   run   : Decomposer::{decompose, decompose_parallel} under one configuration (driver, simplification,
           component splitting, pool size): L2 ScalarOK: scalar() = the number g0 denotes, exact, not
           flagged approximate; no panic, no time-out.  (Equality of all runs with Den(g0) gives the
           parallel = sequential and method-independence clauses.)
   saved : the terms saved (with_save) for a diagram with outputs by the BSS-type drivers
           L2 SavedTermsOK: every term is Clifford and the terms' linear maps sum to Den(g0) *)
EXTENDS TraceLib, Decomp, FiniteSets, FiniteSetsExt
VARIABLES l, g0, den0, viol, drift, stats
vars == <<l, g0, den0, viol, drift, stats>>
Init == l = 1 /\ g0 = EmptyG /\ den0 = <<>> /\ viol = <<>> /\ drift = <<>>
        /\ stats = [hosts |-> 0, steps |-> 0, runs |-> 0, saved |-> 0, nontrivial |-> 0, l1same |-> 0]
SameUpToNew3(spec, impl, old) ==
  LET ns == spec.vs \ old
      ni == impl.vs \ old
  IN /\ Cardinality(ns) = Cardinality(ni) /\ spec.vs \cap old = impl.vs \cap old
     /\ IF ns = {} THEN spec = impl
        ELSE Cardinality(ns) <= 3 /\ \E m \in {f \in [ns -> ni] : \A x, y \in ns : x # y => f[x] # f[y]} :
               Rename(spec, [v \in spec.vs |-> IF v \in ns THEN m[v] ELSE v]) = impl
Step(e) ==
  CASE e.k = "reset" ->
         LET g == FromAbs(e.pre) IN
         g0' = g /\ den0' = Den(g) /\ stats' = [stats EXCEPT !.hosts = @ + 1] /\ UNCHANGED <<viol, drift>>
    [] e.k = "step" ->
         IF e.res # "ok" THEN
           viol' = Append(viol, <<l, "NoPanic", e.decomp.kind, e.via>>) /\ stats' = [stats EXCEPT !.steps = @ + 1] /\ UNCHANGED <<g0, den0, drift>>
         ELSE
           LET terms == [i \in 1..Len(e.terms) |-> FromAbs(e.terms[i])]
               ok == SumDen(terms) = den0
               d == [kind |-> e.decomp.kind, vs |-> e.decomp.vs]
               spec == ApplyDecomp(g0, d)
               same == Len(spec) = Len(terms) /\ \A i \in 1..Len(terms) : SameUpToNew3(spec[i], terms[i], g0.vs)
           IN /\ viol' = IF ok THEN viol ELSE Append(viol, <<l, "StepSumOK", e.decomp.kind, e.via>>)
              /\ drift' = IF same THEN drift ELSE Append(drift, <<l, "ApplyDecomp", e.decomp.kind>>)
              /\ stats' = [stats EXCEPT !.steps = @ + 1, !.nontrivial = @ + 1, !.l1same = @ + (IF same THEN 1 ELSE 0)]
              /\ UNCHANGED <<g0, den0>>
    [] e.k = "run" ->
         /\ viol' = IF e.res = "panic" THEN Append(viol, <<l, "NoPanic", e.driver, e.simp>>)
                    ELSE IF e.res = "timeout" THEN Append(viol, <<l, "Terminates", e.driver, e.simp>>)
                    ELSE IF ~e.approx /\ ScFromAbs(e.scalar) = den0[<<>>] THEN viol
                    ELSE Append(viol, <<l, "ScalarOK", e.driver, e.simp>>)
         /\ stats' = [stats EXCEPT !.runs = @ + 1, !.nontrivial = @ + (IF TCount(g0) > 0 THEN 1 ELSE 0)]
         /\ UNCHANGED <<g0, den0, drift>>
    [] e.k = "saved" ->
         /\ viol' = IF e.res # "ok" THEN Append(viol, <<l, "NoPanic", e.driver, e.simp>>)
                    ELSE LET terms == [i \in 1..Len(e.terms) |-> FromAbs(e.terms[i])] IN
                         IF Len(terms) > 0 /\ (\A i \in 1..Len(terms) : TCount(terms[i]) = 0) /\ SumDen(terms) = den0 THEN viol
                         ELSE Append(viol, <<l, "SavedTermsOK", e.driver, e.simp>>)
         /\ stats' = [stats EXCEPT !.saved = @ + 1, !.nontrivial = @ + 1]
         /\ UNCHANGED <<g0, den0, drift>>
Next == \/ /\ l <= NLines /\ Step(Rec[l]) /\ l' = l + 1
        \/ /\ l = NLines + 1 /\ Report(l, viol, drift, stats) /\ l' = l + 1 /\ UNCHANGED <<g0, den0, viol, drift, stats>>
=============================================================================
