---------------------------- MODULE Trace_Tensor ----------------------------
(* C08: the library's tensor evaluation vs the reference semantics, entry by entry.
   reset/tensor : diagram g and the logged to_tensor4(g)  -> TensorOK: = Den(g) (index order ins then outs)
   circ/ctensor : circuit c and the logged to_tensor4(c)  -> CircTensorOK: = CircSem(c); an event with
                  via = "to_graph" carries to_graph(c).to_tensor4() and is judged by the same predicate
                  (6- and 7-qubit circuits: 4096 / 16384 entries, the size-dependent paths of tensor.rs)
   cmp          : two tensors and the answers of == and scalar_eq -> EqOK / ScalarEqOK
   cmp2         : two FIXED exact tensors t0, t1 handed to every comparison helper as ToTensor objects, in the
                  exact type (==, scalar_eq, compare, scalar_compare) and in the float type (compare, scalar_compare,
                  scalar_eq on float tensors computed from the exact ones): EqOK / ScalarEqOK / CompareOK /
                  ScalarCompareOK / FloatCompareOK / FloatScalarCompareOK / FloatScalarEqOK, all against
                  equality / ProjEq of the logged exact tensors.  The float scalar helpers cross-multiply in floating
                  point, so a "proportional" verdict is only demanded where float arithmetic is exact (all entries
                  Gaussian dyadic: no sqrt2 part) or trivial (equal tensors); "not proportional" is demanded always.
   cmpx         : compare / scalar_compare on diagrams and circuits; expected from Den / CircSem.  The float answers
                  are NOT judged (to_tensorf computes an exact 0 such as 1 + e^{i pi} as 1.2e-16 i, and two contraction
                  orders of equal tensors differ in the last bit): agreement is counted in stats only
   ops          : QubitOps: start tensor ident(q) / delta(q) / hadamard() / a given tensor, then a sequence of
                  hadamard_at / cphase_at / delta_at with caller-chosen index positions -> QubitOpsOK against the gate
                  application operators of Circuit.tla (App1 with MHad, AppDiag) and IdTensor; fok as below
   plug         : plug_n_qubits(t0, n, t1) -> PlugOK: = Compose(t0, r0 - n, n, t1, r1 - n).  When r1 # 2n the
                  library function is known to be wrong (see PlugGeneral below)
   cunsup       : circuit to_tensor on a gate kind the evaluator does not support: outside the property
                  ("all circuits over the gates the circuit evaluator supports"), counted in stats only
   fok is the harness's 1e-9 comparison of the float-typed result with the (exact, validated) Scalar4 result.
   --- the float reference evaluator and the generic-phase tier (phases that are NOT multiples of pi/4) ---
   reset / circ with a field `ref` (engine flag --ref): the tensor that the harness's independent FLOAT reference evaluator
                  (harness/src/refeval.rs) computes for this pi/4 diagram / circuit, per entry <<round(re 2^20), round(im 2^20)>>
                  -> RefEvalOK: every entry is within 2^-18 of the exact entry of Den(cur) / CircSem(c), decided in integer
                  arithmetic (RefEntryClose).  This makes the float oracle a checked artefact: it is what decides the booleans of
                  the generic-phase events here and in Trace_Simp / Trace_Rules / Trace_Circ / Trace_Extract.
   begin        : header of a generic-phase group (what = generic: diagram `pre`; generic_circ: circuit `c`); no exact
                  denotation exists in Ring, nothing is computed
   tensorf / ctensorf : to_tensorf and to_tensor4 (entries converted with complex_value) of a generic-phase diagram / circuit
                  (ctensorf via = to_graph: through the diagram) against the reference evaluator at 1e-9, computed in the
                  harness (floating point cannot be decided by TLC) and logged as booleans fok / f4ok
                  -> FloatTensorOK, Tensor4FloatOK, rank (RankOK), NoPanic *)
EXTENDS TraceLib, ToGraph, FiniteSets, FiniteSetsExt
VARIABLES l, cur, c, cs, viol, drift, stats
vars == <<l, cur, c, cs, viol, drift, stats>>
\* SWITCH (OFF): plug_n_qubits broadcasts self to d1 + n axes, which is only right when `other` has exactly 2n
\* indices; for every other shape it panics or returns a tensor of the wrong rank (genuine defect, patch in
\* work/gD_fix_1.diff).  Set to TRUE once the fix is applied: PlugOK is then demanded for every shape.
PlugGeneral == FALSE
Init == l = 1 /\ cur = EmptyG /\ c = [n |-> 0, gates |-> <<>>] /\ cs = <<>> /\ viol = <<>> /\ drift = <<>>
        /\ stats = [diagrams |-> 0, circuits |-> 0, comparisons |-> 0, nontrivial |-> 0,
                    helper_pairs |-> 0, helper_proportional |-> 0, helper_float_unjudged |-> 0, helper_float_unjudged_agree |-> 0,
                    helper_objects |-> 0, qubit_ops |-> 0, wide |-> 0, plugs |-> 0, plug_general |-> 0, plug_general_bad |-> 0,
                    unsupported |-> 0, unsupported_panics |-> 0,
                    ref_checked |-> 0, ref_entries |-> 0, ref_unjudged |-> 0, generic |-> 0, generic_approx |-> 0]
Check1(ok, name) == IF ok THEN <<>> ELSE <<<<l, name>>>>
B2N(b) == IF b THEN 1 ELSE 0
\* ---------- expected tensors of the QubitOps API ----------
DeltaT(n) == [b \in BIdx(n) |-> IF \A i, j \in 1..n : b[i] = b[j] THEN ROne ELSE RZero]
HadT == [b \in BIdx(2) |-> MHad[b[1] + 1][b[2] + 1]]
\* a tensor with n indices as a circuit state with n live outputs 0..n-1, so that Circuit!App1 / AppDiag apply
AsState(T, n) == [T |-> T, inq |-> <<>>, outq |-> [i \in 1..n |-> i - 1]]
ProdBits(bits) == FoldFunction(LAMBDA x, acc : x * acc, 1, bits)
OpT(T, n, o) ==
  CASE o.op = "had"    -> App1(AsState(T, n), o.qs[1], MHad).T
    [] o.op = "cphase" -> AppDiag(AsState(T, n), o.qs, LAMBDA bits : o.k * ProdBits(bits)).T
    [] o.op = "delta"  -> [b \in DOMAIN T |-> IF \A i, j \in 1..Len(o.qs) : b[o.qs[i] + 1] = b[o.qs[j] + 1] THEN T[b] ELSE RZero]
RECURSIVE ApplyQOps(_, _, _)
ApplyQOps(T, n, ops) == IF ops = <<>> THEN T ELSE ApplyQOps(TLCEval(OpT(T, n, Head(ops))), n, Tail(ops))
StartT(e) == CASE e.start = "ident" -> IdTensor(e.r0 \div 2)
               [] e.start = "delta" -> DeltaT(e.r0)
               [] e.start = "hadamard" -> HadT
               [] OTHER -> TFromSeq(e.t0, e.r0)
GaussDyadic(T) == \A b \in DOMAIN T : T[b][2] = 0 /\ T[b][4] = 0
ObjT(kind, j) == IF kind = "g" THEN Den(FromAbs(j)) ELSE CircSem(CircFromAbs(j))
ObjRank(kind, j) == IF kind = "g" THEN Len(j.ins) + Len(j.outs) ELSE 2 * j.n
\* ---------- RefEvalOK: the harness's float reference evaluator against the exact tensor, in 32-bit integer arithmetic ----------
\* A ring element z = <<a,b,c,d,e>> has re = (a + (b-d)/sqrt2) 2^e and im = (c + (b+d)/sqrt2) 2^e.  With s = e + 20 the fixed-point
\* value is A + M/sqrt2 for the integers A = a 2^s, M = (b-d) 2^s.  M/sqrt2 is computed as M * C30 / 2^30 with
\* C30 = round(2^30/sqrt2) = 759250125 (2^30/sqrt2 = 759250124.994, relative error 8e-12) by 15-bit limbs so that no
\* intermediate exceeds 2^31: for 0 <= M < 2^28 the result is in (M/sqrt2 - 2.01, M/sqrt2 + 0.01).  An entry is judged when
\* 0 <= s <= 27 and |a|, |b-d|, |c|, |b+d| < 2^(27-s) (so |A|, |M| < 2^27); other entries are counted (ref_unjudged).
C30 == 759250125
DivSqrt2(m) == LET m1 == m \div 32768  m0 == m % 32768  c1 == C30 \div 32768  c0 == C30 % 32768
               IN m1 * c1 + ((m1 * c0 + m0 * c1 + ((m0 * c0) \div 32768)) \div 32768)
SDivSqrt2(m) == IF m >= 0 THEN DivSqrt2(m) ELSE -DivSqrt2(-m)
AbsI(x) == IF x >= 0 THEN x ELSE -x
RefEntryJudged(z) == LET s == z[5] + 20 IN
                     /\ s >= 0 /\ s <= 27
                     /\ LET lim == Pow2(27 - s) IN AbsI(z[1]) < lim /\ AbsI(z[2] - z[4]) < lim /\ AbsI(z[3]) < lim /\ AbsI(z[2] + z[4]) < lim
\* |ref - exact| <= 2^-18 implies |R - predicted| <= 4 + 0.5 (rounding of R) + 2.01 (DivSqrt2): accept iff <= 6, i.e. everything
\* accepted is within (6 + 2.51) 2^-20 < 2^-16.9 of the exact value and nothing within 2^-18 is refused
RefEntryClose(r, z) == LET f == Pow2(z[5] + 20) IN
                       /\ AbsI(r[1] - (z[1] * f + SDivSqrt2((z[2] - z[4]) * f))) <= 6
                       /\ AbsI(r[2] - (z[3] * f + SDivSqrt2((z[2] + z[4]) * f))) <= 6
RefJudgedSet(ref, T, n) == {k \in 1..Len(ref) : RefEntryJudged(T[NatToBits(k - 1, n)])}
RefEvalOK(ref, T, n) == /\ Len(ref) = Pow2(n)
                        /\ \A k \in RefJudgedSet(ref, T, n) : RefEntryClose(ref[k], T[NatToBits(k - 1, n)])
\* the part of a header step that concerns `ref` (T is only evaluated when the field is there)
RefStep(e, T, n) ==
  IF Has(e, "ref") THEN
    LET TT == TLCEval(T)
        nj == IF Len(e.ref) = Pow2(n) THEN Cardinality(RefJudgedSet(e.ref, TT, n)) ELSE 0 IN
    /\ viol' = Check1(RefEvalOK(e.ref, TT, n), "RefEvalOK") \o viol
    /\ stats' = [stats EXCEPT !.ref_checked = @ + 1, !.ref_entries = @ + nj, !.ref_unjudged = @ + (Len(e.ref) - nj)]
  ELSE UNCHANGED <<viol, stats>>
Step(e) ==
  CASE e.k = "reset" -> LET g == FromAbs(e.pre) IN cur' = g /\ RefStep(e, Den(g), Len(Bnd(g))) /\ UNCHANGED <<c, cs, drift>>
    [] e.k = "circ"  -> LET cc == CircFromAbs(e.c) IN c' = cc /\ cs' = CircSem(cc) /\ RefStep(e, cs', 2 * cc.n) /\ UNCHANGED <<cur, drift>>
    [] e.k = "begin" -> UNCHANGED <<cur, c, cs, viol, drift, stats>>
    [] e.k \in {"tensorf", "ctensorf"} ->
         /\ viol' = IF e.res # "ok" THEN Append(viol, <<l, "NoPanic">>)
                    ELSE Check1(e.rankok, "RankOK") \o Check1(e.fok, "FloatTensorOK") \o Check1(e.f4ok, "Tensor4FloatOK") \o viol
         /\ stats' = [stats EXCEPT !.generic = @ + 1, !.nontrivial = @ + 1, !.generic_approx = @ + B2N(e.res = "ok" /\ e.approx)]
         /\ UNCHANGED <<cur, c, cs, drift>>
    [] e.k = "tensor" ->
         /\ viol' = IF e.res # "ok" THEN Append(viol, <<l, "NoPanic">>)
                    ELSE LET n == Len(Bnd(cur)) IN
                         Check1(e.rank = n /\ TFromSeq(e.t, n) = Den(cur), "TensorOK") \o Check1(e.fok, "FloatTensorOK") \o viol
         /\ stats' = [stats EXCEPT !.diagrams = @ + 1, !.nontrivial = @ + (IF Spiders(cur) # {} THEN 1 ELSE 0)]
         /\ UNCHANGED <<cur, c, cs, drift>>
    [] e.k = "ctensor" ->
         /\ viol' = IF e.res # "ok" THEN Append(viol, <<l, "NoPanic">>)
                    ELSE Check1(e.rank = 2 * c.n /\ TFromSeq(e.t, 2 * c.n) = cs, "CircTensorOK") \o Check1(e.fok, "FloatTensorOK") \o viol
         /\ stats' = [stats EXCEPT !.circuits = @ + 1, !.nontrivial = @ + (IF Len(c.gates) > 0 THEN 1 ELSE 0),
                                   !.wide = @ + (IF c.n >= 6 THEN 1 ELSE 0)]
         /\ UNCHANGED <<cur, c, cs, drift>>
    [] e.k = "cmp" ->
         LET t0 == TFromSeq(e.t0, e.r0)
             t1 == TFromSeq(e.t1, e.r1)
             same == e.r0 = e.r1 /\ t0 = t1
             proj == e.r0 = e.r1 /\ ProjEq(t0, t1)
         IN /\ viol' = Check1(e.eq = same, "EqOK") \o Check1(e.scalar_eq = proj, "ScalarEqOK") \o viol
            /\ stats' = [stats EXCEPT !.comparisons = @ + 1]
            /\ UNCHANGED <<cur, c, cs, drift>>
    [] e.k = "cmp2" ->
         LET t0 == TFromSeq(e.t0, e.r0)
             t1 == TFromSeq(e.t1, e.r1)
             same == e.r0 = e.r1 /\ t0 = t1
             proj == e.r0 = e.r1 /\ ProjEq(t0, t1)
             fjudged == same \/ ~proj \/ (GaussDyadic(t0) /\ GaussDyadic(t1))
         IN /\ viol' = IF e.res # "ok" THEN Append(viol, <<l, "NoPanic">>)
                       ELSE Check1(e.eq4 = same, "EqOK") \o Check1(e.seq4 = proj, "ScalarEqOK")
                            \o Check1(e.cmp4 = same, "CompareOK") \o Check1(e.scmp4 = proj, "ScalarCompareOK")
                            \o Check1(e.cmpf = same, "FloatCompareOK")
                            \o Check1(fjudged => e.scmpf = proj, "FloatScalarCompareOK")
                            \o Check1(fjudged => e.seqf = proj, "FloatScalarEqOK") \o viol
            /\ stats' = [stats EXCEPT !.comparisons = @ + 1, !.helper_pairs = @ + 1, !.nontrivial = @ + B2N(~TIsZero(t0)),
                                      !.helper_proportional = @ + B2N(proj /\ ~same),
                                      !.helper_float_unjudged = @ + B2N(~fjudged),
                                      !.helper_float_unjudged_agree = @ + B2N(~fjudged /\ e.res = "ok" /\ e.scmpf = proj /\ e.seqf = proj)]
            /\ UNCHANGED <<cur, c, cs, drift>>
    [] e.k = "cmpx" ->
         LET ra == ObjRank(e.ka, e.a)
             rb == ObjRank(e.kb, e.b)
             ta == ObjT(e.ka, e.a)
             tb == ObjT(e.kb, e.b)
             same == ra = rb /\ ta = tb
             proj == ra = rb /\ ProjEq(ta, tb)
         IN /\ viol' = IF e.res # "ok" THEN Append(viol, <<l, "NoPanic">>)
                       ELSE Check1(e.cmp4 = same, "CompareOK") \o Check1(e.scmp4 = proj, "ScalarCompareOK") \o viol
            /\ stats' = [stats EXCEPT !.comparisons = @ + 1, !.helper_objects = @ + 1, !.nontrivial = @ + 1,
                                      !.helper_proportional = @ + B2N(proj /\ ~same),
                                      !.helper_float_unjudged = @ + 1,
                                      !.helper_float_unjudged_agree = @ + B2N(e.res = "ok" /\ e.cmpf = same /\ e.scmpf = proj)]
            /\ UNCHANGED <<cur, c, cs, drift>>
    [] e.k = "ops" ->
         /\ viol' = IF e.res # "ok" THEN Append(viol, <<l, "NoPanic">>)
                    ELSE Check1(e.rank = e.r0 /\ TFromSeq(e.t, e.r0) = ApplyQOps(StartT(e), e.r0, e.ops), "QubitOpsOK")
                         \o Check1(e.fok, "FloatQubitOpsOK") \o viol
         /\ stats' = [stats EXCEPT !.qubit_ops = @ + 1, !.nontrivial = @ + 1, !.wide = @ + (IF e.r0 >= 11 THEN 1 ELSE 0)]
         /\ UNCHANGED <<cur, c, cs, drift>>
    [] e.k = "plug" ->
         LET general == e.r1 # 2 * e.n
             judged == PlugGeneral \/ ~general
             ok == /\ e.res = "ok" /\ e.rank = e.r0 + e.r1 - 2 * e.n
                   /\ TFromSeq(e.t, e.rank) = Compose(TFromSeq(e.t0, e.r0), e.r0 - e.n, e.n, TFromSeq(e.t1, e.r1), e.r1 - e.n)
         IN /\ viol' = IF ~judged THEN viol
                       ELSE IF e.res # "ok" THEN Append(viol, <<l, "NoPanic">>)
                       ELSE Check1(ok, "PlugOK") \o Check1(e.fok, "FloatPlugOK") \o viol
            /\ stats' = [stats EXCEPT !.plugs = @ + 1, !.nontrivial = @ + 1, !.plug_general = @ + B2N(general),
                                      !.plug_general_bad = @ + B2N(general /\ ~ok)]
            /\ UNCHANGED <<cur, c, cs, drift>>
    [] e.k = "cunsup" ->
         /\ stats' = [stats EXCEPT !.unsupported = @ + 1, !.unsupported_panics = @ + B2N(e.res # "ok")]
         /\ UNCHANGED <<cur, c, cs, viol, drift>>
Next == \/ /\ l <= NLines /\ Step(Rec[l]) /\ l' = l + 1
        \/ /\ l = NLines + 1 /\ Report(l, viol, drift, stats) /\ l' = l + 1 /\ UNCHANGED <<cur, c, cs, viol, drift, stats>>
=============================================================================
