---------------------------- MODULE Trace_Tensor ----------------------------
(* C08: the library's tensor evaluation vs the reference semantics, entry by entry.
   reset/tensor : diagram g and the logged to_tensor4(g)  -> TensorOK: = Den(g) (index order ins then outs)
   circ/ctensor : circuit c and the logged to_tensor4(c)  -> CircTensorOK: = CircSem(c)
   cmp          : two tensors and the answers of == and scalar_eq -> EqOK / ScalarEqOK
   fok is the harness's 1e-9 comparison of to_tensorf with the (exact, validated) to_tensor4. *)
EXTENDS TraceLib, ToGraph, FiniteSets, FiniteSetsExt
VARIABLES l, cur, c, viol, drift, stats
vars == <<l, cur, c, viol, drift, stats>>
Init == l = 1 /\ cur = EmptyG /\ c = [n |-> 0, gates |-> <<>>] /\ viol = <<>> /\ drift = <<>>
        /\ stats = [diagrams |-> 0, circuits |-> 0, comparisons |-> 0, nontrivial |-> 0]
Check1(ok, name) == IF ok THEN <<>> ELSE <<<<l, name>>>>
Step(e) ==
  CASE e.k = "reset" -> cur' = FromAbs(e.pre) /\ UNCHANGED <<c, viol, drift, stats>>
    [] e.k = "circ"  -> c' = CircFromAbs(e.c) /\ UNCHANGED <<cur, viol, drift, stats>>
    [] e.k = "tensor" ->
         /\ viol' = IF e.res # "ok" THEN Append(viol, <<l, "NoPanic">>)
                    ELSE LET n == Len(Bnd(cur)) IN
                         Check1(e.rank = n /\ TFromSeq(e.t, n) = Den(cur), "TensorOK") \o Check1(e.fok, "FloatTensorOK") \o viol
         /\ stats' = [stats EXCEPT !.diagrams = @ + 1, !.nontrivial = @ + (IF Spiders(cur) # {} THEN 1 ELSE 0)]
         /\ UNCHANGED <<cur, c, drift>>
    [] e.k = "ctensor" ->
         /\ viol' = IF e.res # "ok" THEN Append(viol, <<l, "NoPanic">>)
                    ELSE Check1(e.rank = 2 * c.n /\ TFromSeq(e.t, 2 * c.n) = CircSem(c), "CircTensorOK") \o Check1(e.fok, "FloatTensorOK") \o viol
         /\ stats' = [stats EXCEPT !.circuits = @ + 1, !.nontrivial = @ + (IF Len(c.gates) > 0 THEN 1 ELSE 0)]
         /\ UNCHANGED <<cur, c, drift>>
    [] e.k = "cmp" ->
         LET t0 == TFromSeq(e.t0, e.r0)
             t1 == TFromSeq(e.t1, e.r1)
             same == e.r0 = e.r1 /\ t0 = t1
             proj == e.r0 = e.r1 /\ ProjEq(t0, t1)
         IN /\ viol' = Check1(e.eq = same, "EqOK") \o Check1(e.scalar_eq = proj, "ScalarEqOK") \o viol
            /\ stats' = [stats EXCEPT !.comparisons = @ + 1]
            /\ UNCHANGED <<cur, c, drift>>
Next == \/ /\ l <= NLines /\ Step(Rec[l]) /\ l' = l + 1
        \/ /\ l = NLines + 1 /\ Report(l, viol, drift, stats) /\ l' = l + 1 /\ UNCHANGED <<cur, c, viol, drift, stats>>
=============================================================================
