------------------------------- MODULE MC_Circ -------------------------------
(* C15 on the specification: for every unitary circuit over the alphabet, appending the adjoint
   gives the identity exactly, basic-gate expansion preserves the unitary exactly and has the
   advertised length with basic gates only, concatenation composes. *)
EXTENDS ToGraph
CONSTANTS NQ, MAXLEN, ONEQ, TWOQ, PHS, THREEQ, PPQ
VARIABLES c
Qs == 0..(NQ - 1)
Pairs2 == {p \in Qs \X Qs : p[1] # p[2]}
Triples == {p \in Qs \X Qs \X Qs : p[1] # p[2] /\ p[1] # p[3] /\ p[2] # p[3]}
G(t, qs, ph) == [t |-> t, qs |-> qs, ph |-> ph, vars |-> PZero]
Alphabet ==
  {G(t, <<q>>, 0) : t \in ONEQ, q \in Qs}
  \cup {G(t, <<q>>, ph) : t \in {"ZPhase", "XPhase"}, q \in Qs, ph \in PHS}
  \cup {G(t, <<p[1], p[2]>>, 0) : t \in TWOQ, p \in Pairs2}
  \cup {G(t, <<p[1], p[2], p[3]>>, 0) : t \in THREEQ, p \in Triples}
  \cup {G("ParityPhase", qs, ph) : qs \in PPQ, ph \in PHS}
Init == c = [n |-> NQ, gates |-> <<>>]
Next == Len(c.gates) < MAXLEN /\ \E g \in Alphabet : c' = [c EXCEPT !.gates = Append(@, g)]
Sem(cc) == CircSemV(cc, <<>>).T
AdjointInverts == Sem(Concat(c, CAdjoint(c))) = IdTensor(NQ)
AdjointInvolutive == CAdjoint(CAdjoint(c)) = c
BasicPreserves == Sem(ToBasic(c)) = Sem(c)
BasicCount == /\ Len(ToBasic(c).gates) = FoldFunction(+, 0, [i \in 1..Len(c.gates) |-> NumBasic(c.gates[i])])
              /\ \A i \in 1..Len(ToBasic(c).gates) : ToBasic(c).gates[i].t \in BasicKinds
\* concatenation composes: split the circuit at every position
ConcatComposes == \A k \in 0..Len(c.gates) :
   LET a == [c EXCEPT !.gates = SubSeq(c.gates, 1, k)]
       b == [c EXCEPT !.gates = SubSeq(c.gates, k + 1, Len(c.gates))]
   IN Sem(c) = Compose(Sem(a), NQ, NQ, Sem(b), NQ)
\* the diagram translation agrees too (ties C15 to C02 on 3-qubit gates)
TranslatedBoth == Den(ToGraph(c, FALSE)) = Sem(c) /\ Den(ToGraph(c, TRUE)) = Sem(c)
PPQ_3 == {<<0>>, <<2, 0>>, <<0, 1, 2>>, <<1, 2, 0>>}
PPQ_2 == {<<1>>, <<0, 1>>, <<1, 0>>}
=============================================================================
