CONSTANTS NQ = 2
MAXLEN = 1
ONEQ = {"S", "T", "Z", "NOT", "HAD"}
TWOQ = {"CNOT", "CZ", "SWAP", "XCX"}
PHS = {}
INIT Init
NEXT Next
INVARIANT Composite
INVARIANT DefOK
CHECK_DEADLOCK FALSE
