CONSTANTS NQ = 2
MAXLEN = 1
ONEQ = {"S", "T", "Z", "NOT", "HAD"}
TWOQ = {"CNOT", "CZ", "SWAP", "XCX"}
PHS = {}
INIT Init
NEXT Next
INVARIANT Composite
INVARIANT DefOK
INVARIANT GadgetIsPhase
CHECK_DEADLOCK FALSE
