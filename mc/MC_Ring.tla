------------------------------- MODULE MC_Ring -------------------------------
(* C07, algebraic layer: Ring.tla (the specification of Scalar4's exact arithmetic, also the coefficient
   domain of every denotational check) satisfies the ring laws, conjugation is an involutive
   automorphism, sqrt2^2 = 2, w^8 = 1, |z|^2 is multiplicative, and the exact phase-and-sqrt2-power
   recognition inverts Omega(k) * Sqrt2Pow(p). *)
EXTENDS Ring, TLC
CONSTANTS C, E
VARIABLES x, y, z, mode
Coeffs == (-C)..C
Elems == {RNorm(<<a, b, c, d, e>>) : a \in Coeffs, b \in Coeffs, c \in {0, 1}, d \in {-1, 0}, e \in (-E)..E}
Init == x = RZero /\ y = RZero /\ z = RZero /\ mode = "x"
Next == \/ mode = "x" /\ x' \in Elems /\ mode' = "y" /\ UNCHANGED <<y, z>>
        \/ mode = "y" /\ y' \in Elems /\ mode' = "z" /\ UNCHANGED <<x, z>>
        \/ mode = "z" /\ z' \in {RZero, ROne, Sqrt2, Omega(3), <<1, 2, 0, -1, -1>>} /\ mode' = "done" /\ UNCHANGED <<x, y>>
D == mode = "done"
Canonical == IsRing(x) /\ IsRing(y)
AddLaws == D => RAdd(x, y) = RAdd(y, x) /\ RAdd(RAdd(x, y), z) = RAdd(x, RAdd(y, z)) /\ RAdd(x, RZero) = x /\ RAdd(x, RNeg(x)) = RZero
MulLaws == D => RMul(x, y) = RMul(y, x) /\ RMul(RMul(x, y), z) = RMul(x, RMul(y, z)) /\ RMul(x, ROne) = x /\ RMul(x, RZero) = RZero
Distrib == D => RMul(x, RAdd(y, z)) = RAdd(RMul(x, y), RMul(x, z))
ConjLaws == D => RConj(RConj(x)) = x /\ RConj(RMul(x, y)) = RMul(RConj(x), RConj(y)) /\ RConj(RAdd(x, y)) = RAdd(RConj(x), RConj(y))
Roots == RMul(Sqrt2, Sqrt2) = RInt(2) /\ RMul(Sqrt2, InvSqrt2) = ROne /\ RPow(Omega(1), 8) = ROne /\ RMul(Omega(1), Omega(1)) = Omega(2)
         /\ \A k \in 0..7 : RMul(Omega(k), RConj(Omega(k))) = ROne
         /\ \A p \in -5..5 : Sqrt2Pow(p) = (IF p >= 0 THEN RPow(Sqrt2, p) ELSE RPow(InvSqrt2, -p))
NormMult == D => Norm2(RMul(x, y)) = N2Mul(Norm2(x), Norm2(y)) /\ N2ToRing(Norm2(x)) = RMul(x, RConj(x))
ExactPhase == \A k \in 0..7, p \in -6..6 : ExactPhasePow(RMul(Omega(k), Sqrt2Pow(p))) = <<TRUE, k, p>>
ExactPhaseSound == D => LET r == ExactPhasePow(x) IN r[1] => x = RMul(Omega(r[2]), Sqrt2Pow(r[3]))
PosReal == D => (RIsPosReal(x) => (RIsReal(x) /\ x # RZero)) /\ (x # RZero => RIsPosReal(RMul(x, RConj(x))))
=============================================================================
