CONSTANTS NQ = 2
MAXLEN = 6
ONEQ = {"T", "HAD", "S"}
TWOQ = {"CNOT", "CZ"}
PHS = {}
STRAT = "full"
TEMPLATE <- TmplGauss
SIMPMODE = "one"
GAUSS = "single"
INIT Init
NEXT Next
INVARIANT ExtInv
INVARIANT BasicOnly
INVARIANT NeverFails
INVARIANT DoneOK
CHECK_DEADLOCK FALSE
