------------------------------ MODULE TraceLib ------------------------------
(***************************************************************************)
(* Common plumbing of all trace specifications.  A trace is an ndjson file *)
(* (IOEnv.TRACE) written by the harness from executions of the real code.  *)
(* A trace spec consumes one line per step; it never blocks on a line that *)
(* the specification would not allow: the next spec state always follows   *)
(* the log, refinement mismatches are counted in `drift` (L1) and the      *)
(* property's predicates, evaluated by TLC on the logged states (L2), are  *)
(* collected in `viol` as <<line, predicate>>.  After the last line a      *)
(* final step prints RESULT <json>; the driver requires it (otherwise the  *)
(* run is a tool error, never a pass).                                     *)
(***************************************************************************)
EXTENDS Integers, Sequences, TLC, Json, IOUtils
Rec == ndJsonDeserialize(IOEnv.TRACE)
NLines == Len(Rec)
Has(e, f) == f \in DOMAIN e
Report(l, viol, drift, stats) ==
  PrintT(<<"RESULT", ToJson([lines |-> l - 1, viol |-> viol, drift |-> drift, stats |-> stats])>>)
=============================================================================
