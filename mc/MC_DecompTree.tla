---------------------------- MODULE MC_DecompTree ----------------------------
(* C05 on the specification: the two-stage use of the Decomposer.  decompose_until_depth(k) leaves a tree of
   sum nodes (terms of a step) and - with component splitting - PRODUCT nodes (components of a diagram, the
   whole scalar on the first); decompose() then reduces that stored tree.  For every closed host over K
   spiders (all edge sets, so every partition into components and every cut vertex occurs), every depth k,
   splitting on / off and three deterministic drivers:
     TreeInv    the partially decomposed tree still has the value of the host (sums and products)
     ResumeOK   reducing the stored tree gives the number the host denotes
     DepthZero  depth 0 leaves the host untouched
   Action Witness is only enabled on a partial tree that contains a product node AND a pending graph node: the
   plan requires (TLC coverage) that it was taken, so the product case is never vacuous. *)
EXTENDS Decomp
CONSTANTS K, PHS, KMAX, SCALARS
VARIABLES g, tree, cfg, mode
vars == <<g, tree, cfg, mode>>
VS == 1..K
ScQ == {<<0, 1, 0, 0, -1>>}       \* a non-trivial scalar: it must end up on exactly one component
ScOne == {<<0, 1, 0, 0, -1>>}
Pairs == {e \in SUBSET VS : Cardinality(e) = 2}
NoCfg == [k |-> 0, split |-> FALSE, drv |-> "none"]
Init == g = EmptyG /\ tree = TScalar(ROne) /\ cfg = NoCfg /\ mode = "b1"
B1 == /\ mode = "b1" /\ \E ph \in [VS -> PHS] : \E sc \in SCALARS :
           g' = [EmptyG EXCEPT !.vs = VS, !.ty = [v \in VS |-> "Z"], !.ph = ph, !.vr = [v \in VS |-> PZero], !.sc = sc]
      /\ mode' = "b2" /\ UNCHANGED <<tree, cfg>>
B2 == /\ mode = "b2" /\ \E E \in SUBSET Pairs : g' = [g EXCEPT !.et = [e \in E |-> "H"]]
      /\ mode' = "b3" /\ UNCHANGED <<tree, cfg>>
Stage1 == /\ mode = "b3"
          /\ \E k \in 0..KMAX, split \in BOOLEAN, drv \in {"cut", "single", "ts"} :
               /\ cfg' = [k |-> k, split |-> split, drv |-> drv]
               /\ tree' = ExpandUntil(TGraph(g), 0, k, split, drv)
          /\ mode' = "partial" /\ UNCHANGED g
Witness == /\ mode = "partial" /\ TreeHasProd(tree) /\ TreeHasGraph(tree) /\ mode' = "witness" /\ UNCHANGED <<g, tree, cfg>>
Next == B1 \/ B2 \/ Stage1 \/ Witness
TreeInv == mode = "partial" => TreeVal(tree) = DenClosed(g)
ResumeOK == mode = "partial" => ReduceTree(tree, cfg.split, cfg.drv) = DenClosed(g)
\* a tree cut at depth 0 is the host itself; an unbounded-enough depth leaves no graph node
DepthZero == mode = "partial" /\ cfg.k = 0 => tree = TGraph(g)
=============================================================================
