---------------------------- MODULE Trace_XSteps ----------------------------
(* C03, per phase: validation of every phase of Extractor::extract recorded through hook H4.
   circ   : the source circuit; U0 = CircSem
   xbegin : simplifier, extractor mode, backend
   xstep  : phase in begin | prepare | gadget | extract | gauss | perm with the remaining diagram g, the
            circuit c extracted so far (gates are pushed to the front) and the frontier
   xend   : the result of extract()
   L2 (viol): the RESULT (xend) obeys the property: Ok, basic gates only, CircSem(out) proportional to U0
              (up to a permutation of the inputs in mode perm) - the same predicate as Trace_Extract.
   L1 (drift): the real run is a behaviour of spec/Extract.tla -
     Inv       in every recorded state  Den(g) ; CircSem(c)  is proportional to U0 and not zero (ExtInv of
               MC_Extract, on the states of the real code), and c has basic gates only
     Prepare   the state after prepare_frontier is Extract!Prepare of the previous state (diagram up to the
               names of the padding vertices, circuit up to the order inside runs of CZ gates, frontier equal)
     Gadget    the diagram is ApplyGenPivot on SOME frontier-vertex / gadget pair allowed by GadgetPairs,
               the matcher CheckBoundaryPivot holds, the circuit is unchanged
     Extract   the diagram is ExtractAll (remove_id on the frontier vertices), the circuit is unchanged
     Gauss     the new gates are CNOT / SWAP on frontier qubits; read as row operations they turn the
               frontier biadjacency matrix of the previous diagram into that of the new one, nothing else
               changes; in the single-solution-set modes the operations are SlnOps of one of SlnChoices
               (or none), in mode flow there are none
     Perm      the diagram is unchanged; unless up_to_perm, CircSem(c) is proportional to U0
   An intermediate state that breaks Inv while the result is right does not contradict the property,
   hence L1; it shows WHERE a wrong result came from. *)
EXTENDS TraceLib, Extract, FiniteSetsExt
VARIABLES l, n, u0, mode, have, pg, pc, pfr, gadgets, viol, drift, stats
vars == <<l, n, u0, mode, have, pg, pc, pfr, gadgets, viol, drift, stats>>
DENMAX == 6
E0 == [n |-> 0, gates |-> <<>>]
Init == l = 1 /\ n = 0 /\ u0 = <<>> /\ mode = "" /\ have = FALSE /\ pg = EmptyG /\ pc = E0 /\ pfr = <<>> /\ gadgets = {}
        /\ viol = <<>> /\ drift = <<>>
        /\ stats = [circuits |-> 0, runs |-> 0, steps |-> 0, prepare |-> 0, gadget |-> 0, extract |-> 0, gauss |-> 0, gauss_ops |-> 0,
                    perm |-> 0, inv_checked |-> 0, inv_skipped |-> 0, l1_ok |-> 0, nontrivial |-> 0]
Unit(g) == [g EXCEPT !.sc = ROne, !.sf = <<>>]
NSp(g) == Cardinality({v \in g.vs : g.ty[v] # "B"})
ExtractKinds == {"HAD", "ZPhase", "CZ", "CNOT", "SWAP"}
BasicOnly(o) == \A i \in 1..Len(o.gates) : o.gates[i].t \in ExtractKinds
Perms(k) == {p \in [1..k -> 1..k] : \A i, j \in 1..k : i # j => p[i] # p[j]}
Equivalent(o) == o.n = n /\ ~TIsZero(CircSem(o)) /\ ProjEq(CircSem(o), u0)
EquivUpToPerm(o) == o.n = n /\ LET s == CircSem(o) IN
                    ~TIsZero(s) /\ \E p \in Perms(n) : ProjEq(Compose(PermTensor(n, p), n, n, s, n), u0)
\* equal gate sequences up to the order (and the qubit order) inside maximal runs of CZ gates
IsCZ(A, i) == A[i].t = "CZ"
RunOf(A, i) == {k \in 1..Len(A) : \A j \in (IF k < i THEN k..i ELSE i..k) : IsCZ(A, j)}
CZEq(A, B) == /\ Len(A) = Len(B)
              /\ \A i \in 1..Len(A) : A[i].t = B[i].t /\ (~IsCZ(A, i) => A[i] = B[i])
              /\ \A i \in 1..Len(A) : IsCZ(A, i) => {ToSet(A[k].qs) : k \in RunOf(A, i)} = {ToSet(B[k].qs) : k \in RunOf(A, i)}
RowOfQ(fr, q) == CHOOSE i \in 1..Len(fr) : fr[i][1] = q
FrQs(fr) == {fr[i][1] : i \in 1..Len(fr)}
\* the new gates (a prefix of c, pushed to the front one by one) read back as row operations, in the order applied
OpsOf(fr, new) == [k \in 1..Len(new) |-> LET x == new[Len(new) + 1 - k] IN
                     IF x.t = "CNOT" THEN <<"add", RowOfQ(fr, x.qs[2]), RowOfQ(fr, x.qs[1])>>
                     ELSE <<"swap", RowOfQ(fr, x.qs[1]), RowOfQ(fr, x.qs[2])>>]
Inv(g, c) == BasicOnly(c) /\ LET t == Total(g, c) IN ~TIsZero(t) /\ ProjEq(t, u0)
Step(e) ==
  CASE e.k = "circ" ->
         LET cc == CircFromAbs(e.c) IN
         /\ n' = cc.n /\ u0' = CircSem(cc) /\ stats' = [stats EXCEPT !.circuits = @ + 1]
         /\ UNCHANGED <<mode, have, pg, pc, pfr, gadgets, viol, drift>>
    [] e.k = "xbegin" ->
         /\ mode' = e.mode /\ have' = FALSE /\ stats' = [stats EXCEPT !.runs = @ + 1]
         /\ UNCHANGED <<n, u0, pg, pc, pfr, gadgets, viol, drift>>
    [] e.k = "xstep" ->
         LET g == FromAbs(e.g)
             c == CircFromAbs(e.c)
             fr == e.fr
             small == NSp(g) <= DENMAX
             inv == IF e.phase = "perm" THEN BasicOnly(c) /\ (mode = "perm" \/ Equivalent(c))
                    ELSE ~small \/ Inv(g, c)
             nnew == Len(c.gates) - Len(pc.gates)
             grows == nnew >= 0 /\ SubSeq(c.gates, nnew + 1, Len(c.gates)) = pc.gates
             new == SubSeq(c.gates, 1, nnew)
             l1 == CASE ~have \/ e.phase = "begin" -> TRUE
                     [] e.phase = "prepare" ->
                          \E st \in PrepareSet(pg, pc) :
                            ~st.err /\ st.fr = fr /\ CZEq(st.c.gates, c.gates) /\ SameUpToNew(Unit(st.g), Unit(g), pg.vs)
                     [] e.phase = "gadget" ->
                          c = pc /\ \E p \in GadgetPairs(pg, fr, gadgets) :
                                      CheckBoundaryPivot(pg, p[1], p[2]) /\ SameUpToNew(Unit(ApplyGenPivot(pg, p[1], p[2]).g), Unit(g), pg.vs)
                     [] e.phase = "extract" ->
                          c = pc /\ Unit(g) = Unit(ExtractAll(pg, [i \in 1..Len(fr) |-> fr[i][2]])) /\ g # pg
                     [] e.phase = "gauss" ->
                          /\ grows /\ fr = pfr
                          /\ \A i \in 1..nnew : new[i].t \in {"CNOT", "SWAP"} /\ ToSet(new[i].qs) \subseteq FrQs(fr)
                          /\ LET cols == FNbrs(pg, fr)
                                 M == Biadj(pg, fr, cols)
                                 ops == OpsOf(fr, new)
                             IN /\ Unit(g) = Unit(SetBiadj(pg, fr, cols, ApplyOps(M, ops)))
                                /\ (mode = "flow" => ops = <<>>)
                                /\ (mode \in {"gflow", "perm"} => ops = <<>> \/ \E x \in SlnChoices(M) : ops = SlnOps(x[2], x[3]))
                     [] e.phase = "perm" -> grows /\ Unit(g) = Unit(pg) /\ (mode = "perm" => nnew = 0)
                     [] OTHER -> FALSE
             gone == IF have /\ e.phase = "gadget" THEN {p[2] : p \in {p \in GadgetPairs(pg, fr, gadgets) :
                                      CheckBoundaryPivot(pg, p[1], p[2]) /\ SameUpToNew(Unit(ApplyGenPivot(pg, p[1], p[2]).g), Unit(g), pg.vs)}}
                     ELSE {}
         IN /\ drift' = drift \o (IF inv THEN <<>> ELSE <<<<l, "Inv", e.phase, mode>>>>) \o (IF l1 THEN <<>> ELSE <<<<l, "Step", e.phase, mode>>>>)
            /\ pg' = g /\ pc' = c /\ pfr' = fr /\ have' = TRUE
            /\ gadgets' = IF e.phase = "begin" THEN InitGadgets(g) ELSE IF Cardinality(gone) = 1 THEN gadgets \ gone ELSE gadgets
            /\ stats' = [stats EXCEPT !.steps = @ + 1, !.prepare = @ + (IF e.phase = "prepare" THEN 1 ELSE 0), !.gadget = @ + (IF e.phase = "gadget" THEN 1 ELSE 0),
                                      !.extract = @ + (IF e.phase = "extract" THEN 1 ELSE 0), !.gauss = @ + (IF e.phase = "gauss" THEN 1 ELSE 0),
                                      !.perm = @ + (IF e.phase = "perm" THEN 1 ELSE 0),
                                      !.gauss_ops = @ + (IF e.phase = "gauss" /\ nnew > 0 THEN 1 ELSE 0),
                                      !.inv_checked = @ + (IF small \/ e.phase = "perm" THEN 1 ELSE 0),
                                      !.inv_skipped = @ + (IF small \/ e.phase = "perm" THEN 0 ELSE 1),
                                      !.l1_ok = @ + (IF l1 /\ inv THEN 1 ELSE 0)]
            /\ UNCHANGED <<n, u0, mode, viol>>
    [] e.k = "xend" ->
         /\ viol' = IF e.res # "ok"
                    THEN Append(viol, <<l, IF e.res = "error" THEN "ExtractionSucceeds" ELSE IF e.res = "timeout" THEN "Terminates" ELSE "NoPanic", e.simp, e.mode>>)
                    ELSE LET o == CircFromAbs(e.out) IN
                         IF BasicOnly(o) /\ (IF e.mode = "perm" THEN EquivUpToPerm(o) ELSE Equivalent(o)) THEN viol
                         ELSE Append(viol, <<l, "ExtractOK", e.simp, e.mode>>)
         /\ drift' = IF e.res = "ok" /\ have /\ CircFromAbs(e.out) # pc THEN Append(drift, <<l, "ResultIsLastState", e.simp, e.mode>>) ELSE drift
         /\ stats' = [stats EXCEPT !.nontrivial = @ + (IF have /\ Len(pc.gates) > 0 THEN 1 ELSE 0)]
         /\ UNCHANGED <<n, u0, mode, have, pg, pc, pfr, gadgets>>
Next == \/ /\ l <= NLines /\ Step(Rec[l]) /\ l' = l + 1
        \/ /\ l = NLines + 1 /\ Report(l, viol, drift, stats) /\ l' = l + 1 /\ UNCHANGED <<n, u0, mode, have, pg, pc, pfr, gadgets, viol, drift, stats>>
=============================================================================
