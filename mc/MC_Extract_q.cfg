CONSTANTS NQ = 2
MAXLEN = 2
ONEQ = {"T", "HAD", "S"}
TWOQ = {"CNOT", "CZ"}
PHS = {}
STRAT = "clifford"
TEMPLATE <- NoTemplate
SIMPMODE = "all"
GAUSS = "simple"
INIT Init
NEXT Next
INVARIANT ExtInv
INVARIANT BasicOnly
INVARIANT NeverFails
INVARIANT DoneOK
CHECK_DEADLOCK FALSE
