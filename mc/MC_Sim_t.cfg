CONSTANTS NQ = 2
MAXLEN = 4
ONEQ = {"T", "NOT", "HAD", "S"}
TWOQ = {"CNOT", "CZ", "SWAP"}
PHS = {3}
INIT Init
NEXT Next
INVARIANT Normalised
INVARIANT ChainRule
INVARIANT ExpectReal
INVARIANT ExpectIdentity
INVARIANT ExpectZ
CHECK_DEADLOCK FALSE
