CONSTANTS K = 3
TYS = {"Z"}
PHS = {0,1,2,4}
ETS = {"H"}
NB = 2
VARS = {}
BB = FALSE
STRAT = "full"
SPECIFICATION Spec
INVARIANT Sound
INVARIANT NoPanicInv
PROPERTY Terminates
CHECK_DEADLOCK FALSE
