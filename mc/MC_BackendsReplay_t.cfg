CONSTANTS MAXOPS = 6
MAXTAG = 3
MAXNAME = 4
INIT InitR
NEXT NextR
VIEW ViewR
INVARIANT VInv
INVARIANT HInv
INVARIANT Refines
INVARIANT Counts
INVARIANT SameOutcome
INVARIANT Emit
CHECK_DEADLOCK FALSE
