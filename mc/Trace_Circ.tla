----------------------------- MODULE Trace_Circ -----------------------------
(* C02 / C15: validation of recorded circuit translations and circuit transformations.
   circ    : a circuit; its meaning CircSemV (per measurement-outcome assignment) is computed once
   tograph : Circuit::to_graph_with_options in one mode/backend
             L2 Translated: Den(Inst(post, sig)) = CircSemV(c, sig) for every sig, arities, well-formed
             L1: post = ToGraph(c) name for name (plain and postsel modes)
   op      : to_adjoint / to_basic_gates / + / reverse / stats   (C15) *)
EXTENDS TraceLib, ToGraph, FiniteSets, FiniteSetsExt

VARIABLES l, c, rc, sem, viol, drift, stats
vars == <<l, c, rc, sem, viol, drift, stats>>
Empty == [n |-> 0, gates |-> <<>>]
Init == l = 1 /\ c = Empty /\ rc = Empty /\ sem = <<>> /\ viol = <<>> /\ drift = <<>>
        /\ stats = [circuits |-> 0, translations |-> 0, ops |-> 0, nontrivial |-> 0, l1same |-> 0]

IsUnitary(cc) == \A i \in 1..Len(cc.gates) : cc.gates[i].t \notin {"InitAncilla", "PostSelect", "Measure", "MeasureReset"}
SemOf(cc) == CircSemV(cc, <<>>).T
IsCliffGate(g) == CASE g.t \in {"ZPhase", "XPhase", "ParityPhase"} -> IsClifford(g.ph)
                    [] g.t \in {"T", "Tdg", "TOFF", "CCZ"} -> FALSE [] OTHER -> TRUE
Count(cc, P(_)) == Cardinality({i \in 1..Len(cc.gates) : P(cc.gates[i])})

OpOK(e) ==
  CASE e.op = "adjoint" ->
         LET a == CircFromAbs(e.out) IN
         /\ a = CAdjoint(c)                                              \* the documented transformation
         /\ (IsUnitary(c) => SemOf(Concat(c, a)) = IdTensor(c.n))      \* and it inverts
    [] e.op = "basic" ->
         LET b == CircFromAbs(e.out.c) IN
         /\ Len(b.gates) = e.out.advertised
         /\ e.out.advertised = FoldFunction(+, 0, [i \in 1..Len(c.gates) |-> NumBasic(c.gates[i])])
         /\ \A i \in 1..Len(b.gates) : b.gates[i].t \in BasicKinds \cup {"InitAncilla", "PostSelect", "Measure", "MeasureReset"}
         /\ b.n = c.n
         /\ \A sig \in [CircVars(rc) -> BOOLEAN] : CircSemV(Resolved(b), sig).T = sem[sig].T
    [] e.op = "concat" ->
         LET r == CircFromAbs(e.out.rhs)  s == CircFromAbs(e.out.sum) IN
         /\ s = Concat(c, r) /\ \A f \in {"sum_ref", "sum_ref_own", "sum_own_ref", "sum_assign"} : e.out[f] = e.out.sum      \* every overload of + and +=
         /\ (IsUnitary(c) /\ IsUnitary(r) => SemOf(s) = Compose(SemOf(c), c.n, c.n, SemOf(r), c.n))
    [] e.op = "reverse2" ->
         /\ CircFromAbs(e.out.twice) = c
         /\ LET o == CircFromAbs(e.out.once) IN o.gates = [i \in 1..Len(c.gates) |-> c.gates[Len(c.gates) + 1 - i]]
    [] e.op = "stats" ->
         LET s == e.out IN
         /\ s.qubits = c.n /\ s.total = Len(c.gates)
         /\ s.oneq + s.twoq + s.moreq = s.total /\ s.cliff + s.non_cliff = s.total
         /\ s.oneq = Count(c, LAMBDA g : Len(g.qs) = 1)
         /\ s.twoq = Count(c, LAMBDA g : Len(g.qs) = 2)
         \* nothing that is not Clifford is counted as Clifford (XCX and Clifford-angle parity phases are
         \* counted as non-Clifford by the code: conservative, not a partition error)
         /\ s.non_cliff >= Count(c, LAMBDA g : ~IsCliffGate(g))
         /\ s.cliff = Count(c, LAMBDA g : g.t \in {"NOT", "Z", "S", "Sdg", "CNOT", "CZ", "SWAP", "HAD"}
                                           \/ (g.t \in {"ZPhase", "XPhase"} /\ IsClifford(g.ph)))

Step(e) ==
  CASE e.k = "circ" ->
         LET cc == CircFromAbs(e.c)
             r == Resolved(cc) IN
         /\ c' = cc /\ rc' = r
         /\ sem' = [sig \in [CircVars(r) -> BOOLEAN] |-> CircSemV(r, sig)]
         /\ stats' = [stats EXCEPT !.circuits = @ + 1]
         /\ UNCHANGED <<viol, drift>>
    [] e.k = "tograph" ->
         IF e.res # "ok" THEN
           viol' = Append(viol, <<l, "NoPanic">>) /\ stats' = [stats EXCEPT !.translations = @ + 1]
           /\ UNCHANGED <<c, rc, sem, drift>>
         ELSE
           LET post == FromAbs(e.post)
               vs == CircVars(rc)
               s0 == sem[CHOOSE sig \in DOMAIN sem : TRUE]
               arity == Len(post.ins) = Len(s0.inq) /\ Len(post.outs) = Len(s0.outq)
               ok == arity /\ VarsOf(post) \subseteq vs /\ \A sig \in DOMAIN sem : Den(Inst(post, sig)) = sem[sig].T
               wf == WellFormed(post)
               same == e.mode \in {"simp", "simp_postsel"} \/ ToGraph(c, e.mode = "postsel") = post
           IN /\ viol' = (IF ok THEN <<>> ELSE <<<<l, "Translated">>>>) \o (IF wf THEN <<>> ELSE <<<<l, "WellFormed">>>>) \o viol
              /\ drift' = IF same THEN drift ELSE Append(drift, <<l, "ToGraph", e.mode, e.be>>)
              /\ stats' = [stats EXCEPT !.translations = @ + 1, !.nontrivial = @ + (IF Len(c.gates) > 0 THEN 1 ELSE 0),
                                        !.l1same = @ + (IF same THEN 1 ELSE 0)]
              /\ UNCHANGED <<c, rc, sem>>
    [] e.k = "op" ->
         /\ viol' = IF e.res # "ok" THEN Append(viol, <<l, "NoPanic", e.op>>)
                    ELSE IF OpOK(e) THEN viol ELSE Append(viol, <<l, "OpOK", e.op>>)
         /\ stats' = [stats EXCEPT !.ops = @ + 1, !.nontrivial = @ + (IF Len(c.gates) > 0 THEN 1 ELSE 0)]
         /\ UNCHANGED <<c, rc, sem, drift>>
Next == \/ /\ l <= NLines /\ Step(Rec[l]) /\ l' = l + 1
        \/ /\ l = NLines + 1 /\ Report(l, viol, drift, stats) /\ l' = l + 1
           /\ UNCHANGED <<c, rc, sem, viol, drift, stats>>
=============================================================================
