----------------------------- MODULE Trace_Circ -----------------------------
(* C02 / C10 / C15: validation of recorded circuit translations and circuit transformations.
   circ    : a circuit; its meaning CircSemV (per measurement-outcome assignment) is computed once.
             Measure / MeasureReset gates may carry EXPLICIT outcome variables (two measurements into one variable,
             explicit and fresh ones mixed); optional field fresh0: the first fresh variable a caller of
             Gate::add_to_graph handed in (otherwise the documented seed: largest explicit variable + 1)
   tograph : Circuit::to_graph_with_options in one mode/backend (plain, simp, postsel, simp_postsel), or (mode direct /
             direct_postsel) the same translation driven gate by gate through the public Gate::add_to_graph with a
             caller-owned qubit map, or (via = qasm) the translation of the circuit Circuit::from_qasm read from a text
             whose measurements are `measure q[i] -> c[j];` statements
             L2 Translated: Den(Inst(post, sig)) = CircSemV(c, sig) for every sig, arities, well-formed
             L1: post = ToGraph(c) name for name (plain, postsel and direct modes; direct: the caller's counter too)
             circuits containing UnknownGate are outside "every supported gate kind": recorded in stats, never judged
   op      : to_adjoint / to_basic_gates / + / reverse / stats   (C15), and the rest of the public surface:
             concat_mismatch (+ and += on different qubit counts), push_front, by_name (the add_gate family), counts
             (num_gates_of_type), stats_views (into_array, Display), adjoint_inplace (Circuit::adjoint, Gate::adjoint),
             rowops (impl RowOps for Circuit), layouts (all of reverse / adjoint / + / == on circuits whose deque is wrapped)
   note    : something the harness could not set up (QASM text rejected by the front end); counted only
   begin / tographf (engine flag --generic): C02 "to floating-point tolerance": a unitary circuit with rz / rx / parity-phase angles that
             are NOT multiples of pi/4 (no exact meaning in Ring; `c` keeps only the qubit count) translated in one mode / backend.
             TLC cannot decide floating point: the harness compares its float reference evaluation of the produced DIAGRAM (ref_den,
             the definition of spec/ZXSem.tla) with its float gate-matrix evaluation of the CIRCUIT (ref_circ, the matrices of
             spec/Circuit.tla) - both in harness/src/refeval.rs, validated against the exact specification by
             Trace_Tensor!RefEvalOK - at 1e-9 and logs the booleans `arity` and `close` -> L2 TranslatedFloat, NoPanic *)
EXTENDS TraceLib, ToGraph, FiniteSets, FiniteSetsExt

VARIABLES l, c, rc, sem, f0, viol, drift, stats
vars == <<l, c, rc, sem, f0, viol, drift, stats>>
Empty == [n |-> 0, gates |-> <<>>]
Init == l = 1 /\ c = Empty /\ rc = Empty /\ sem = <<>> /\ f0 = -1 /\ viol = <<>> /\ drift = <<>>
        /\ stats = [circuits |-> 0, translations |-> 0, ops |-> 0, nontrivial |-> 0, l1same |-> 0,
                    explicit_vars |-> 0, shared_var |-> 0, direct |-> 0, via_qasm |-> 0, simp_postsel |-> 0,
                    unknown_gate_runs |-> 0, unknown_gate_noop |-> 0, addassign_mismatch_silent |-> 0,
                    unknown_name_silent |-> 0, notes |-> 0, wrapped_layouts |-> 0,
                    generic_circuits |-> 0, generic_translations |-> 0, generic_close |-> 0, generic_approx |-> 0, generic_toobig |-> 0]

(* SWITCH (audit item 11).  `impl AddAssign<&Circuit> for Circuit` has no qubit-count check: `a += &b` with b on another
   number of qubits silently returns a circuit (whose gates may address qubits that do not exist), while every `+`
   overload refuses with a panic.  Concatenation of such operands denotes no composite map, so under C15 this is a defect
   of quizx (fix: /verif/work/gB_fix_1.diff).  Until that fix is applied the unchanged tree would alarm, therefore the
   check of `+=` (predicate AddAssignChecked, tags pred=AddAssignChecked op=concat_mismatch) is OFF and the occurrences are
   only counted (stats.addassign_mismatch_silent).  To turn it on after the fix: set CheckAddAssignMismatch == TRUE. *)
CheckAddAssignMismatch == TRUE

IsUnitary(cc) == \A i \in 1..Len(cc.gates) : cc.gates[i].t \notin {"InitAncilla", "PostSelect", "Measure", "MeasureReset"}
HasUnknown(cc) == \E i \in 1..Len(cc.gates) : cc.gates[i].t = "UnknownGate"
IsMeas(g) == g.t \in {"Measure", "MeasureReset"}
HasExplicit(cc) == \E i \in 1..Len(cc.gates) : IsMeas(cc.gates[i]) /\ ~PIsEmpty(cc.gates[i].vars)
HasShared(cc) == \E i, j \in 1..Len(cc.gates) : i < j /\ IsMeas(cc.gates[i]) /\ IsMeas(cc.gates[j])
                                                  /\ cc.gates[i].vars[1] \cap cc.gates[j].vars[1] # {}
SemOf(cc) == CircSemV(cc, <<>>).T
IsCliffGate(g) == CASE g.t \in {"ZPhase", "XPhase", "ParityPhase"} -> IsClifford(g.ph)
                    [] g.t \in {"T", "Tdg", "TOFF", "CCZ"} -> FALSE [] OTHER -> TRUE
Count(cc, P(_)) == Cardinality({i \in 1..Len(cc.gates) : P(cc.gates[i])})
PlusOverloads == {"sum", "sum_ref", "sum_ref_own", "sum_own_ref"}

OpOK(e) ==
  CASE e.op = "adjoint" ->
         LET a == CircFromAbs(e.out) IN
         /\ a = CAdjoint(c)                                              \* the documented transformation
         /\ (IsUnitary(c) => SemOf(Concat(c, a)) = IdTensor(c.n))      \* and it inverts
    [] e.op = "basic" ->
         LET b == CircFromAbs(e.out.c) IN
         /\ Len(b.gates) = e.out.advertised
         /\ e.out.advertised = FoldFunction(+, 0, [i \in 1..Len(c.gates) |-> NumBasic(c.gates[i])])
         /\ \A i \in 1..Len(b.gates) : b.gates[i].t \in BasicKinds \cup {"InitAncilla", "PostSelect", "Measure", "MeasureReset"}
         /\ b.n = c.n
         /\ \A sig \in [CircVars(rc) -> BOOLEAN] : CircSemV(Resolved(b), sig).T = sem[sig].T
    [] e.op = "concat" ->
         LET r == CircFromAbs(e.out.rhs)  s == CircFromAbs(e.out.sum) IN
         /\ s = Concat(c, r) /\ \A f \in {"sum_ref", "sum_ref_own", "sum_own_ref", "sum_assign"} : e.out[f] = e.out.sum      \* every overload of + and +=
         /\ (IsUnitary(c) /\ IsUnitary(r) => SemOf(s) = Compose(SemOf(c), c.n, c.n, SemOf(r), c.n))
    [] e.op = "concat_mismatch" ->
         \* operands on different qubit counts: no overload may hand back a circuit (the `+` family panics as documented)
         LET r == CircFromAbs(e.out.rhs) IN
         /\ ~Concatenable(c, r)
         /\ \A f \in PlusOverloads : e.out.results[f] = "panic"      \* `+=`: predicate AddAssignChecked below (behind the switch)
    [] e.op = "push_front" ->
         LET g == GateFromAbs(e.out.g)
             o == CircFromAbs(e.out.out)
             b == CircFromAbs(e.out.back) IN
         /\ o = CPushFront(c, g) /\ b = CPushBack(c, g)
         \* prepending a gate = concatenating [g] and c: g's map first
         /\ (IsUnitary(c) => SemOf(o) = Compose(SemOf([n |-> c.n, gates |-> <<g>>]), c.n, c.n, SemOf(c), c.n))
    [] e.op = "by_name" -> CircFromAbs(e.out.out) = c       \* built gate by gate from the gates' names: the same circuit
    [] e.op = "counts" ->
         /\ ToSet(e.out.kinds) = GateKinds \cup {"UnknownGate"} /\ Len(e.out.ns) = Len(e.out.kinds)
         /\ \A i \in 1..Len(e.out.kinds) : e.out.ns[i] = KindCount(c, e.out.kinds[i])
         /\ e.out.num_gates = Len(c.gates) /\ FoldFunction(+, 0, e.out.ns) = Len(c.gates)      \* the kinds partition the gates
    [] e.op = "stats_views" ->
         \* the array and the printed form show the same seven numbers as the fields, in the fields' order
         /\ e.out.arr = StatsArr(e.out.fields) /\ e.out.disp = e.out.fields /\ e.out.make_same
    [] e.op = "adjoint_inplace" ->
         /\ CircFromAbs(e.out.inplace) = CAdjoint(c) /\ e.out.inplace = e.out.to_adjoint
         /\ Len(e.out.gatewise) = Len(c.gates)
         /\ \A i \in 1..Len(c.gates) : GateFromAbs(e.out.gatewise[i]) = AdjGate(c.gates[i])
    [] e.op = "layouts" ->
         \* the same gate sequence built in different ways (push_back only / push_front in reverse order / from the middle outwards /
         \* the first gate last, to the front / two gates too many popped off again): `gates` is a VecDeque, after a push_front its
         \* buffer is wrapped.  Whatever the layout: the circuits are equal, ONE in-place reverse gives the reversed sequence, the
         \* in-place adjoint is the adjoint, c + adjoint is c followed by its adjoint and denotes the identity
         LET adj == CAdjoint(c)
             rev == [c EXCEPT !.gates = [i \in 1..Len(c.gates) |-> c.gates[Len(c.gates) + 1 - i]]] IN
         \A i \in 1..Len(e.out.layouts) :
            LET y == e.out.layouts[i] IN
            /\ CircFromAbs(y.built) = c /\ y.eq_base /\ y.stats_same /\ y.basic = e.out.basic_base
            /\ CircFromAbs(y.rev_once) = rev /\ CircFromAbs(y.rev_twice) = c
            /\ CircFromAbs(y.adj_inplace) = adj /\ CircFromAbs(y.to_adjoint) = adj
            /\ CircFromAbs(y.plus_adj) = Concat(c, adj) /\ y.plus_adj2 = y.plus_adj
            /\ (y.mode = "middle_out" /\ IsUnitary(c) => SemOf(CircFromAbs(y.plus_adj)) = IdTensor(c.n))
    [] e.op = "rowops" ->
         LET base == CircFromAbs(e.out.base) IN
         \A i \in 1..Len(e.out.ops) :
            LET o == e.out.ops[i] IN
            /\ o.res = "ok" /\ Len(o.out.gates) = Len(base.gates) + 1
            /\ RowOpMirrors(base, CircFromAbs(o.out), o.mat)
    [] e.op = "reverse2" ->
         /\ CircFromAbs(e.out.twice) = c
         /\ LET o == CircFromAbs(e.out.once) IN o.gates = [i \in 1..Len(c.gates) |-> c.gates[Len(c.gates) + 1 - i]]
    [] e.op = "stats" ->
         LET s == e.out IN
         /\ s.qubits = c.n /\ s.total = Len(c.gates)
         /\ s.oneq + s.twoq + s.moreq = s.total /\ s.cliff + s.non_cliff = s.total
         /\ s.oneq = Count(c, LAMBDA g : Len(g.qs) = 1)
         /\ s.twoq = Count(c, LAMBDA g : Len(g.qs) = 2)
         \* nothing that is not Clifford is counted as Clifford (XCX and Clifford-angle parity phases are
         \* counted as non-Clifford by the code: conservative, not a partition error)
         /\ s.non_cliff >= Count(c, LAMBDA g : ~IsCliffGate(g))
         /\ s.cliff = Count(c, LAMBDA g : g.t \in {"NOT", "Z", "S", "Sdg", "CNOT", "CZ", "SWAP", "HAD"}
                                           \/ (g.t \in {"ZPhase", "XPhase"} /\ IsClifford(g.ph)))
B(x) == IF x THEN 1 ELSE 0

Step(e) ==
  CASE e.k = "circ" ->
         LET cc == CircFromAbs(e.c)
             r == IF Has(e, "fresh0") THEN ResolvedFrom(cc, e.fresh0) ELSE Resolved(cc) IN
         /\ c' = cc /\ rc' = r /\ f0' = IF Has(e, "fresh0") THEN e.fresh0 ELSE -1
         /\ sem' = [sig \in [CircVars(r) -> BOOLEAN] |-> CircSemV(r, sig)]
         /\ stats' = [stats EXCEPT !.circuits = @ + 1, !.explicit_vars = @ + B(HasExplicit(cc)), !.shared_var = @ + B(HasShared(cc))]
         /\ UNCHANGED <<viol, drift>>
    [] e.k = "begin" ->
         /\ c' = [n |-> e.c.n, gates |-> <<>>] /\ rc' = Empty /\ sem' = <<>> /\ f0' = -1
         /\ stats' = [stats EXCEPT !.generic_circuits = @ + 1] /\ UNCHANGED <<viol, drift>>
    [] e.k = "tographf" ->
         /\ viol' = IF e.res = "panic" THEN Append(viol, <<l, "NoPanic">>)
                    ELSE IF e.res = "ok" /\ ~(e.arity /\ e.close) THEN Append(viol, <<l, "TranslatedFloat">>)
                    ELSE viol
         /\ stats' = [stats EXCEPT !.generic_translations = @ + 1, !.generic_toobig = @ + B(e.res = "toobig"),
                                   !.generic_close = @ + B(e.res = "ok" /\ e.close), !.generic_approx = @ + B(e.res = "ok" /\ e.approx),
                                   !.nontrivial = @ + B(e.res = "ok")]
         /\ UNCHANGED <<c, rc, sem, f0, drift>>
    [] e.k = "note" -> stats' = [stats EXCEPT !.notes = @ + 1] /\ UNCHANGED <<c, rc, sem, f0, viol, drift>>
    [] e.k = "tograph" ->
         IF e.res # "ok" THEN
           \* a circuit with an UnknownGate is not "over the supported gate set": nothing is promised, not even no panic
           /\ viol' = IF HasUnknown(c) THEN viol ELSE Append(viol, <<l, "NoPanic">>)
           /\ stats' = [stats EXCEPT !.translations = @ + 1, !.unknown_gate_runs = @ + B(HasUnknown(c))]
           /\ UNCHANGED <<c, rc, sem, f0, drift>>
         ELSE
           LET post == FromAbs(e.post)
               vs == CircVars(rc)
               s0 == sem[CHOOSE sig \in DOMAIN sem : TRUE]
               arity == Len(post.ins) = Len(s0.inq) /\ Len(post.outs) = Len(s0.outq)
               ok == arity /\ VarsOf(post) \subseteq vs /\ \A sig \in DOMAIN sem : Den(Inst(post, sig)) = sem[sig].T
               wf == WellFormed(post)
               direct == e.mode \in {"direct", "direct_postsel"}
               same == IF direct THEN /\ ToGraphFrom(c, e.mode = "direct_postsel", f0) = post
                                      /\ e.fresh_end = f0 + NumFreshUsed(c)
                       ELSE e.mode \in {"simp", "simp_postsel"} \/ ToGraph(c, e.mode = "postsel") = post
               unk == HasUnknown(c)
           IN /\ viol' = IF unk THEN viol
                         ELSE (IF ok THEN <<>> ELSE <<<<l, "Translated">>>>) \o (IF wf THEN <<>> ELSE <<<<l, "WellFormed">>>>) \o viol
              /\ drift' = IF same \/ unk THEN drift ELSE Append(drift, <<l, "ToGraph", e.mode, e.be>>)
              /\ stats' = [stats EXCEPT !.translations = @ + 1, !.nontrivial = @ + (IF Len(c.gates) > 0 THEN 1 ELSE 0),
                                        !.l1same = @ + (IF same THEN 1 ELSE 0), !.direct = @ + B(direct),
                                        !.via_qasm = @ + B(Has(e, "via")), !.simp_postsel = @ + B(e.mode = "simp_postsel"),
                                        \* what an UnknownGate does: dropped without a trace (the diagram denotes the circuit without it)?
                                        !.unknown_gate_runs = @ + B(unk), !.unknown_gate_noop = @ + B(unk /\ ok /\ wf)]
              /\ UNCHANGED <<c, rc, sem, f0>>
    [] e.k = "op" ->
         /\ viol' = (IF e.res # "ok" THEN <<<<l, "NoPanic", e.op>>>>
                     ELSE IF OpOK(e) THEN <<>> ELSE <<<<l, "OpOK", e.op>>>>)
                    \o (IF CheckAddAssignMismatch /\ e.op = "concat_mismatch" /\ e.res = "ok" /\ e.out.results.sum_assign # "panic"
                        THEN <<<<l, "AddAssignChecked", e.op>>>> ELSE <<>>)
                    \o viol
         /\ stats' = [stats EXCEPT !.ops = @ + 1, !.nontrivial = @ + (IF Len(c.gates) > 0 THEN 1 ELSE 0),
                                   !.addassign_mismatch_silent = @ + B(e.op = "concat_mismatch" /\ e.res = "ok" /\ e.out.results.sum_assign = "ok"),
                                   !.unknown_name_silent = @ + B(e.op = "by_name" /\ e.res = "ok" /\ e.out.unknown_kind = "UnknownGate"),
                                   \* non-vacuity of the layouts op: how many of the built circuits really were wrapped around the buffer end
                                   !.wrapped_layouts = @ + (IF e.op = "layouts" /\ e.res = "ok"
                                                            THEN Cardinality({i \in 1..Len(e.out.layouts) : e.out.layouts[i].wrapped}) ELSE 0)]
         /\ UNCHANGED <<c, rc, sem, f0, drift>>
Next == \/ /\ l <= NLines /\ Step(Rec[l]) /\ l' = l + 1
        \/ /\ l = NLines + 1 /\ Report(l, viol, drift, stats) /\ l' = l + 1
           /\ UNCHANGED <<c, rc, sem, f0, viol, drift, stats>>
=============================================================================
