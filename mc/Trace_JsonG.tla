---------------------------- MODULE Trace_JsonG ----------------------------
(* C13: validation of recorded qgraph JSON round trips of the real code.
   reset     : the diagram g (abs_ext: vertices, phases as reduced pairs n/d, edges, inputs, outputs,
               exact scalar, coordinates x10)
   roundtrip : via encode_decode | serde_hash | file, backend, the emitted text projected by the harness
               into the abstract document of spec/JsonG.tla (`doc`), the decoded diagram (`post`), and
               the floating-point verdicts on the scalar.
   L2 (viol), each evaluated by TLC with the definitions of spec/JsonG.tla on the logged values:
     NoError        res = ok: neither direction failed or panicked and the text was readable
     IsoPost        post is isomorphic to g by an isomorphism mapping inputs to inputs and outputs to
                    outputs in order, preserving vertex types, phases (compared as reduced pairs, all
                    denominators <= 256), edge types and coordinates
     DenPost        Den(post) = Den(g) up to the scalar clause, when all phases are multiples of pi/4,
                    only B/Z/X vertices occur and there are at most DENMAX spiders
     DocWF          the document is well formed (names unique, every edge endpoint declared, virtual
                    hadamard nodes have exactly two edges, input / output indices are 0..n-1)
     DocMeansPre    the document joins no pair of vertices twice and the SPECIFICATION's decoding of it
                    is anchored-isomorphic to g: the text means the right thing to another reader
     ScalarExact    g's scalar is sqrt2^p e^{i k pi/4} (Ring!ExactPhasePow): the decoded scalar is the
                    same element of Z[omega][1/2] ("preserved exactly": the four dyadic coefficients
                    are equal AND the decoded scalar is not flagged approximate unless the original was,
                    i.e. Scalar4's own == holds; stats.approx_flag_set counts the flagged ones)
                    ("post"), and the specification's reading of the scalar fields of the document gives
                    that element ("doc")
     ScalarClose    otherwise: |decoded - original| <= 1e-9 |original| (harness, complex doubles; "post"),
                    and the same for a reader of the scalar fields (harness, own arithmetic; "doc")
   Conversion API with caller-chosen options and documents of OTHER writers (harness option --api, audit #24).  The
   statement is about quizx's own output; for foreign input it is stretched only to: a text that denotes a rational
   with denominator <= 256 (a scalar document that denotes a ring element, a diagram document of a shape DecodeWith
   transcribes) decodes to exactly that, or to an error - never to something else, never by a panic.
     phase_dec   : JsonPhase::to_phase on a text rendered from a logged SHAPE: ForeignPhase (JsonG!ForeignPhaseOK with the
                   spec's value of the shape, PhShapeVal; "raw" texts that denote nothing are only counted)
     phase_enc   : JsonPhase::from_phase(p, caller's PhaseOptions) and to_phase of the result: NoError, PhaseOptions
                   (JsonG!PhaseOptOK: ignore value <-> "", exact within min(256, limit), own text decodes to what it says)
     scalar_conv : JsonScalar::from(&s) | from(s) x Scalar4::try_from(&js) | try_from(js): NoError, ScalarExact / ScalarClose
                   exactly as for a round trip
     scalar_dec  : hand-written scalar documents incl. phasenodes / is_zero / is_unknown / JsonScalar::unknown():
                   NoPanic, ForeignScalar (a document that denotes a ring element of the form sqrt2^p e^{i k pi/4}
                   (JsonG!DecodeScalarExt) decodes to it exactly; otherwise |decoded - value| <= 1e-9 scale, computed by
                   the harness from the fields with doubles; an error is accepted; is_unknown denotes no value: counted)
     foreign     : a diagram written by the harness in other writers' shapes (hadamard-typed edges, foreign phase texts,
                   boolean input/output flags, missing annotations, arbitrary names | parallel edges | virtual nodes joined
                   to each other), decoded by decode_graph: NoPanic; IsoPost when the document has no parallel edges and no
                   virtual-virtual edge (and the SPEC's decoding of it is the intended diagram: otherwise the harness's
                   writer is at fault, drift ForeignWriter); DenPost (parallel edges: against Den(WithParallel(g, extra)),
                   scalar included - such documents carry no scalar field); ScalarExact (ring element).  decode_err is
                   accepted and counted.
   L1 additions: ReaderAgreesWithShape (the harness's independent reader re-reads every rendered text to the shape's
   value), PhaseOptAsWritten (tilde / pi / limited denominator as from_phase documents them), UnknownIsOne
   (parallel-edge documents: agreement of the decoded diagram with the transcription's, which depends on the iteration
   order of a HashMap, is only counted: stats.foreign_par_as_transcribed).
   L1 (drift): the logged document is Encode(g) up to naming: same numbers of wires / nodes / edges,
   same bag of wire records, same bag of node records (types, values with the "" conventions, is_edge,
   coordinates incl. the rounded mean on virtual nodes), same scalar record; connectivity up to naming
   is DocMeansPre. *)
EXTENDS TraceLib, JsonG
VARIABLES l, pre, prer, crd, dpre, presca, viol, drift, stats
vars == <<l, pre, prer, crd, dpre, presca, viol, drift, stats>>
DENMAX == 7

Init == l = 1 /\ presca = FALSE /\ pre = EmptyG /\ prer = EmptyG /\ crd = <<>> /\ dpre = [ok |-> FALSE, t |-> <<>>] /\ viol = <<>> /\ drift = <<>>
        /\ stats = [diagrams |-> 0, roundtrips |-> 0, nontrivial |-> 0, den_checked |-> 0, raw_phase |-> 0, hbox |-> 0,
                    hedges |-> 0, exact_scalars |-> 0, other_scalars |-> 0, approx_flag_set |-> 0, refine_iso |-> 0, l1same |-> 0,
                    phase_texts |-> 0, phase_in_scope |-> 0, phase_in_scope_err |-> 0, phase_raw |-> 0, phase_raw_panic |-> 0,
                    phase_opts |-> 0, phase_opts_exact |-> 0, scalar_convs |-> 0, scalar_docs |-> 0, scalar_docs_ring |-> 0,
                    scalar_docs_err |-> 0, scalar_unknown |-> 0, foreign_docs |-> 0, foreign_err |-> 0, foreign_iso |-> 0,
                    foreign_par |-> 0, foreign_par_as_transcribed |-> 0, foreign_hh |-> 0, foreign_den |-> 0]

\* the logged diagram with phases kept as reduced pairs (ZXGraph!FromAbs needs multiples of pi/4)
FromAbsRaw(j) ==
  LET nv == Len(j.v)
      ne == Len(j.e)
      vs == {j.v[i].id : i \in 1..nv}
      rec(v) == j.v[CHOOSE i \in 1..nv : j.v[i].id = v]
      es == {Edge(j.e[i].u, j.e[i].w) : i \in 1..ne}
      erec(e) == j.e[CHOOSE i \in 1..ne : Edge(j.e[i].u, j.e[i].w) = e]
  IN [vs |-> vs, ty |-> [v \in vs |-> rec(v).ty], ph |-> [v \in vs |-> CanonPair(rec(v).ph)],
      vr |-> [v \in vs |-> PZero], et |-> [e \in es |-> erec(e).t],
      ins |-> j.ins, outs |-> j.outs, sc |-> ScFromAbs(j.sc), sf |-> <<>>]
\* coordinates: abs_ext logs [id, row x10, qubit x10]; the document carries units of 0.001
CrdOf(j) == [v \in {j.crd[i][1] : i \in 1..Len(j.crd)} |->
               LET c == j.crd[CHOOSE i \in 1..Len(j.crd) : j.crd[i][1] = v] IN <<100 * c[2], 100 * c[3]>>]
DocOf(j) == [wire_vertices |-> [i \in 1..Len(j.wire_vertices) |-> LET w == j.wire_vertices[i] IN
                                  [name |-> w.name, boundary |-> w.boundary, coord |-> w.coord, input |-> w.input, output |-> w.output]],
             node_vertices |-> [i \in 1..Len(j.node_vertices) |-> LET n == j.node_vertices[i] IN
                                  [name |-> n.name, type |-> n.type, value |-> n.value, is_edge |-> n.is_edge, coord |-> n.coord]],
             undir_edges |-> [i \in 1..Len(j.undir_edges) |-> LET e == j.undir_edges[i] IN [src |-> e.src, tgt |-> e.tgt, type |-> e.type]],
             scalar |-> [present |-> j.scalar.present, power2 |-> j.scalar.power2, phase |-> j.scalar.phase,
                         ff |-> j.scalar.ff, is_zero |-> j.scalar.is_zero]]
Denotable(j) == AbsOK(j) /\ (\A i \in 1..Len(j.v) : j.v[i].ty \in {"B", "Z", "X"})
                /\ Cardinality({i \in 1..Len(j.v) : j.v[i].ty # "B"}) <= DENMAX
Unit(x) == [x EXCEPT !.sc = ROne]
\* bag equality of two sequences
SameBag(s, t) == Len(s) = Len(t) /\ \A x \in ToSet(s) \cup ToSet(t) :
                   Cardinality({i \in 1..Len(s) : s[i] = x}) = Cardinality({i \in 1..Len(t) : t[i] = x})
NoName(s) == [i \in 1..Len(s) |-> [f \in (DOMAIN s[i]) \ {"name"} |-> s[i][f]]]
IsEncodeUpToNames(doc, want) ==
  /\ Len(doc.undir_edges) = Len(want.undir_edges) /\ DocPlain(doc)
  /\ SameBag(NoName(doc.wire_vertices), NoName(want.wire_vertices))
  /\ SameBag(NoName(doc.node_vertices), NoName(want.node_vertices))
  /\ doc.scalar = want.scalar

\* the phase of a node in units of pi/4 from a document value that need not be reduced
PhOf4C(t, v) == IF v = NoVal THEN (IF t = "Hbox" THEN 4 ELSE 0) ELSE PhU(CanonPair(v))

Step(e) ==
  CASE e.k = "reset" ->
         LET den == Denotable(e.pre) IN
         /\ prer' = FromAbsRaw(e.pre) /\ crd' = CrdOf(e.pre) /\ presca' = e.pre.sca
         /\ pre' = IF den THEN FromAbs(e.pre) ELSE EmptyG
         /\ dpre' = [ok |-> den, t |-> IF den THEN Den(Unit(pre')) ELSE <<>>]
         /\ stats' = [stats EXCEPT !.diagrams = @ + 1]
         /\ UNCHANGED <<viol, drift>>
    [] e.k = "roundtrip" ->
         IF e.res # "ok" THEN
           /\ viol' = Append(viol, <<l, "NoError", e.via, e.be, e.res>>)
           /\ stats' = [stats EXCEPT !.roundtrips = @ + 1]
           /\ UNCHANGED <<pre, prer, crd, dpre, presca, drift>>
         ELSE
           LET post == FromAbsRaw(e.post)
               cpost == CrdOf(e.post)
               doc == DocOf(e.doc)
               isoPost == IsoAnchoredC(post, cpost, prer, crd)
               denOK == ~dpre.ok \/ (Denotable(e.post) /\ Den(Unit(FromAbs(e.post))) = dpre.t)
               wf == DocWF(doc)
               dec == DecodeWith(doc, PhOfRaw)
               means == wf /\ DocSimple(doc) /\ ~dec.panic /\ ~dec.unsupported /\ IsoAnchoredC(dec.g, dec.cg, prer, crd)
               exact == ExactPhasePow(prer.sc)[1]
               \* the decoded scalar (post) and the scalar fields as another reader understands them (doc)
               scPost == IF exact THEN e.scalar_exact_kept /\ ~e.sc_big /\ ScFromAbs(e.post.sc) = prer.sc /\ (e.post.sca => presca) ELSE e.scalar_close
               scDoc == IF exact THEN ScalarExactDoc(doc.scalar) /\ DecodeScalar(doc.scalar) = prer.sc ELSE e.doc_scalar_close
               scName == IF exact THEN "ScalarExact" ELSE "ScalarClose"
               same == IsEncodeUpToNames(doc, EncodeWith(prer, crd, ValOfRaw).doc)
               bad(ok, name) == IF ok THEN <<>> ELSE <<<<l, name, e.via, e.be>>>>
           IN /\ viol' = bad(isoPost, "IsoPost") \o bad(denOK, "DenPost") \o bad(wf, "DocWF") \o bad(means, "DocMeansPre")
                         \o (IF scPost /\ scDoc THEN <<>>
                             ELSE <<<<l, scName, e.via, e.be, IF scPost THEN "doc" ELSE IF scDoc THEN "post" ELSE "post+doc">>>>) \o viol
              /\ drift' = IF same THEN drift ELSE Append(drift, <<l, "DocIsEncode", e.via, e.be>>)
              /\ stats' = [stats EXCEPT !.roundtrips = @ + 1,
                             !.nontrivial = @ + (IF prer.vs # {} \/ prer.sc # ROne THEN 1 ELSE 0),
                             !.den_checked = @ + (IF dpre.ok THEN 1 ELSE 0),
                             !.raw_phase = @ + (IF \E v \in prer.vs : 4 % prer.ph[v][2] # 0 THEN 1 ELSE 0),
                             !.hbox = @ + (IF \E v \in prer.vs : prer.ty[v] = "Hbox" THEN 1 ELSE 0),
                             !.hedges = @ + Cardinality({x \in DOMAIN prer.et : prer.et[x] = "H"}),
                             !.exact_scalars = @ + (IF exact THEN 1 ELSE 0),
                             !.other_scalars = @ + (IF exact THEN 0 ELSE 1),
                             !.approx_flag_set = @ + (IF exact /\ e.post.sca THEN 1 ELSE 0),
                             !.refine_iso = @ + (IF Cardinality(prer.vs) > 6 THEN 1 ELSE 0),
                             !.l1same = @ + (IF same THEN 1 ELSE 0)]
              /\ UNCHANGED <<pre, prer, crd, dpre, presca>>
    [] e.k = "phase_dec" ->
         LET sh == e.sh
             judged == sh.kind # "raw"
             inscope == judged /\ sh.kind # "empty" /\ PhShapeInScope(sh)
             ok == ~judged \/ ForeignPhaseOK(sh, e.res, e.ret)
             readerOK == ~judged \/ sh.kind = "empty" \/ ~PhShapeWF(sh)
                         \/ (e.reader_ok /\ e.reader[2] > 0 /\ CanonPair(e.reader) = CanonPair(PhShapeVal(sh)))
         IN /\ viol' = IF ok THEN viol ELSE Append(viol, <<l, "ForeignPhase", e.res>>)
            /\ drift' = IF readerOK THEN drift ELSE Append(drift, <<l, "ReaderAgreesWithShape">>)
            /\ stats' = [stats EXCEPT !.phase_texts = @ + 1, !.nontrivial = @ + (IF inscope THEN 1 ELSE 0),
                                      !.phase_in_scope = @ + (IF inscope THEN 1 ELSE 0),
                                      !.phase_in_scope_err = @ + (IF inscope /\ e.res = "err" THEN 1 ELSE 0),
                                      !.phase_raw = @ + (IF judged THEN 0 ELSE 1),
                                      !.phase_raw_panic = @ + (IF ~judged /\ e.res = "panic" THEN 1 ELSE 0)]
            /\ UNCHANGED <<pre, prer, crd, dpre, presca>>
    [] e.k = "phase_enc" ->
         IF e.res # "ok" THEN
           /\ viol' = Append(viol, <<l, "NoError", "from_phase", e.res>>)
           /\ stats' = [stats EXCEPT !.phase_opts = @ + 1]
           /\ UNCHANGED <<pre, prer, crd, dpre, presca, drift>>
         ELSE
           LET p == <<e.p[1], e.p[2]>>
               doc == <<e.doc[1], e.doc[2]>>
               ok == PhaseOptOK(p, e.opts, doc, e.back_res, e.back)
               asw == doc = NoVal \/ ~e.doc_ok \/ PhaseOptAsWritten(p, e.opts, doc, e.tilde, e.haspi)
           IN /\ viol' = IF ok THEN viol ELSE Append(viol, <<l, "PhaseOptions", e.back_res>>)
              /\ drift' = IF asw THEN drift ELSE Append(drift, <<l, "PhaseOptAsWritten">>)
              /\ stats' = [stats EXCEPT !.phase_opts = @ + 1, !.nontrivial = @ + 1,
                                        !.phase_opts_exact = @ + (IF p[2] <= 256 /\ (e.opts.limit = 0 \/ p[2] <= e.opts.limit) THEN 1 ELSE 0)]
              /\ UNCHANGED <<pre, prer, crd, dpre, presca>>
    [] e.k = "scalar_conv" ->
         IF e.res # "ok" THEN
           /\ viol' = Append(viol, <<l, "NoError", e.enc, e.dec, e.res>>)
           /\ stats' = [stats EXCEPT !.scalar_convs = @ + 1]
           /\ UNCHANGED <<pre, prer, crd, dpre, presca, drift>>
         ELSE
           LET z == ScFromAbs(e.pre_sc)
               exact == ExactPhasePow(z)[1]
               d == e.doc
               scPost == IF exact THEN e.scalar_exact_kept /\ ~e.sc_big /\ ScFromAbs(e.post_sc) = z /\ ~e.post_sca ELSE e.scalar_close
               scDoc == IF exact THEN ScalarExactDoc(d) /\ ~d.is_unknown /\ d.phasenodes = <<>> /\ DecodeScalar(d) = z ELSE e.doc_scalar_close
           IN /\ viol' = IF scPost /\ scDoc THEN viol
                         ELSE Append(viol, <<l, IF exact THEN "ScalarExact" ELSE "ScalarClose", e.enc, e.dec,
                                             IF scPost THEN "doc" ELSE IF scDoc THEN "post" ELSE "post+doc">>)
              /\ stats' = [stats EXCEPT !.scalar_convs = @ + 1, !.nontrivial = @ + 1,
                                        !.exact_scalars = @ + (IF exact THEN 1 ELSE 0), !.other_scalars = @ + (IF exact THEN 0 ELSE 1)]
              /\ UNCHANGED <<pre, prer, crd, dpre, presca, drift>>
    [] e.k = "scalar_dec" ->
         IF e.res = "unreadable" THEN
           /\ drift' = Append(drift, <<l, "ForeignScalarUnreadable">>) /\ stats' = [stats EXCEPT !.scalar_docs = @ + 1]
           /\ UNCHANGED <<pre, prer, crd, dpre, presca, viol>>
         ELSE
           LET d == e.doc
               ring == e.exact_doc /\ ScalarDocExact(d) /\ ~d.is_unknown
               z == IF ring THEN DecodeScalarExt(d) ELSE RZero
               exact == ring /\ ExactPhasePow(z)[1]
               ok == CASE d.is_unknown -> e.res # "panic"
                       [] e.res = "panic" -> FALSE
                       [] e.res = "decode_err" -> TRUE
                       [] e.res = "ok" /\ exact -> ~e.sc_big /\ ScFromAbs(e.post_sc) = z
                       [] OTHER -> e.close
           IN /\ viol' = IF ok THEN viol ELSE Append(viol, <<l, IF e.res = "panic" THEN "NoPanic" ELSE "ForeignScalar", e.via, IF exact THEN "exact" ELSE "close">>)
              /\ drift' = IF d.is_unknown /\ ~(e.res = "ok" /\ ScFromAbs(e.post_sc) = ROne) THEN Append(drift, <<l, "UnknownIsOne">>)
                          ELSE IF e.unknown_ctor /\ ~d.is_unknown THEN Append(drift, <<l, "UnknownCtor">>) ELSE drift
              /\ stats' = [stats EXCEPT !.scalar_docs = @ + 1, !.nontrivial = @ + (IF e.res = "ok" THEN 1 ELSE 0),
                                        !.scalar_docs_ring = @ + (IF exact THEN 1 ELSE 0),
                                        !.scalar_docs_err = @ + (IF e.res = "decode_err" THEN 1 ELSE 0),
                                        !.scalar_unknown = @ + (IF d.is_unknown THEN 1 ELSE 0)]
              /\ UNCHANGED <<pre, prer, crd, dpre, presca>>
    [] e.k = "foreign" ->
         IF e.res \in {"panic", "unreadable"} THEN
           /\ viol' = Append(viol, <<l, IF e.res = "panic" THEN "NoPanic" ELSE "ForeignUnreadable", e.via, e.be>>)
           /\ stats' = [stats EXCEPT !.foreign_docs = @ + 1]
           /\ UNCHANGED <<pre, prer, crd, dpre, presca, drift>>
         ELSE IF e.res # "ok" THEN      \* an error is an admissible answer to a document of another writer
           /\ stats' = [stats EXCEPT !.foreign_docs = @ + 1, !.foreign_err = @ + 1]
           /\ UNCHANGED <<pre, prer, crd, dpre, presca, viol, drift>>
         ELSE
           LET post == FromAbsRaw(e.post)
               cpost == CrdOf(e.post)
               doc == DocOf(e.doc)
               par == [i \in 1..Len(e.par) |-> <<e.par[i][1], e.par[i][2], e.par[i][3]>>]
               struct == par = <<>> /\ ~e.hh
               dec == DecodeWith(doc, PhOfRaw)
               means == struct /\ DocSimple(doc) /\ ~dec.panic /\ ~dec.unsupported /\ IsoAnchoredC(dec.g, dec.cg, prer, crd)
               isoPost == ~means \/ IsoAnchoredC(post, cpost, prer, crd)
               denotable == dpre.ok /\ Denotable(e.post) /\ Cardinality({v \in prer.vs : prer.ty[v] # "B"}) + Len(par) <= DENMAX
               denOK == IF ~denotable THEN TRUE
                        ELSE IF par = <<>> THEN Den(Unit(FromAbs(e.post))) = dpre.t
                        ELSE ~e.sc_big /\ Den(FromAbs(e.post)) = Den(WithParallel(pre, par))
               scPost == par # <<>> \/ (e.scalar_exact_kept /\ ~e.sc_big /\ ScFromAbs(e.post.sc) = prer.sc)
               \* parallel edges make the transcription add pi to phases: it needs them in units of pi/4
               pi4doc == \A i \in 1..Len(doc.node_vertices) :
                           LET v == doc.node_vertices[i].value IN v = NoVal \/ (v[2] > 0 /\ PhOK(CanonPair(v)))
               refines == \/ par = <<>> \/ ~pi4doc \/ ~AbsOK(e.post)
                          \/ LET d4 == DecodeWith(doc, PhOf4C)
                                 p4 == FromAbs(e.post)
                             IN d4.panic \/ d4.unsupported \/ (IsoAnchoredC(p4, cpost, d4.g, d4.cg) /\ p4.sc = d4.g.sc)
               bad(ok, name) == IF ok THEN <<>> ELSE <<<<l, name, e.via, e.be>>>>
           IN /\ viol' = bad(isoPost, "IsoPost") \o bad(denOK, "DenPost") \o bad(scPost, "ScalarExact") \o viol
              \* (which endpoint of a fused pair receives a pi depends on the iteration order of the code's HashMap of
              \* edges: agreement of a parallel-edge document with the transcription's order is only counted)
              /\ drift' = (IF struct /\ ~means THEN <<<<l, "ForeignWriter">>>> ELSE <<>>) \o drift
              /\ stats' = [stats EXCEPT !.foreign_docs = @ + 1, !.nontrivial = @ + (IF prer.vs # {} THEN 1 ELSE 0),
                                        !.foreign_iso = @ + (IF means THEN 1 ELSE 0),
                                        !.foreign_par = @ + (IF par # <<>> THEN 1 ELSE 0),
                                        !.foreign_par_as_transcribed = @ + (IF par # <<>> /\ refines THEN 1 ELSE 0),
                                        !.foreign_hh = @ + (IF e.hh THEN 1 ELSE 0),
                                        !.foreign_den = @ + (IF denotable THEN 1 ELSE 0),
                                        !.approx_flag_set = @ + (IF e.post.sca THEN 1 ELSE 0)]
              /\ UNCHANGED <<pre, prer, crd, dpre, presca>>
Next == \/ /\ l <= NLines /\ Step(Rec[l]) /\ l' = l + 1
        \/ /\ l = NLines + 1 /\ Report(l, viol, drift, stats) /\ l' = l + 1 /\ UNCHANGED <<pre, prer, crd, dpre, presca, viol, drift, stats>>
=============================================================================
