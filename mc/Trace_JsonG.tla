---------------------------- MODULE Trace_JsonG ----------------------------
(* C13: validation of recorded qgraph JSON round trips of the real code.
   reset     : the diagram g (abs_ext: vertices, phases as reduced pairs n/d, edges, inputs, outputs,
               exact scalar, coordinates x10)
   roundtrip : via encode_decode | serde_hash | file, backend, the emitted text projected by the harness
               into the abstract document of spec/JsonG.tla (`doc`), the decoded diagram (`post`), and
               the floating-point verdicts on the scalar.
   L2 (viol), each evaluated by TLC with the definitions of spec/JsonG.tla on the logged values:
     NoError        res = ok: neither direction failed or panicked and the text was readable
     IsoPost        post is isomorphic to g by an isomorphism mapping inputs to inputs and outputs to
                    outputs in order, preserving vertex types, phases (compared as reduced pairs, all
                    denominators <= 256), edge types and coordinates
     DenPost        Den(post) = Den(g) up to the scalar clause, when all phases are multiples of pi/4,
                    only B/Z/X vertices occur and there are at most DENMAX spiders
     DocWF          the document is well formed (names unique, every edge endpoint declared, virtual
                    hadamard nodes have exactly two edges, input / output indices are 0..n-1)
     DocMeansPre    the document joins no pair of vertices twice and the SPECIFICATION's decoding of it
                    is anchored-isomorphic to g: the text means the right thing to another reader
     ScalarExact    g's scalar is sqrt2^p e^{i k pi/4} (Ring!ExactPhasePow): the decoded scalar is the
                    same element of Z[omega][1/2] ("preserved exactly": the four dyadic coefficients
                    are equal AND the decoded scalar is not flagged approximate unless the original was,
                    i.e. Scalar4's own == holds; stats.approx_flag_set counts the flagged ones)
                    ("post"), and the specification's reading of the scalar fields of the document gives
                    that element ("doc")
     ScalarClose    otherwise: |decoded - original| <= 1e-9 |original| (harness, complex doubles; "post"),
                    and the same for a reader of the scalar fields (harness, own arithmetic; "doc")
   L1 (drift): the logged document is Encode(g) up to naming: same numbers of wires / nodes / edges,
   same bag of wire records, same bag of node records (types, values with the "" conventions, is_edge,
   coordinates incl. the rounded mean on virtual nodes), same scalar record; connectivity up to naming
   is DocMeansPre. *)
EXTENDS TraceLib, JsonG
VARIABLES l, pre, prer, crd, dpre, presca, viol, drift, stats
vars == <<l, pre, prer, crd, dpre, presca, viol, drift, stats>>
DENMAX == 7

Init == l = 1 /\ presca = FALSE /\ pre = EmptyG /\ prer = EmptyG /\ crd = <<>> /\ dpre = [ok |-> FALSE, t |-> <<>>] /\ viol = <<>> /\ drift = <<>>
        /\ stats = [diagrams |-> 0, roundtrips |-> 0, nontrivial |-> 0, den_checked |-> 0, raw_phase |-> 0, hbox |-> 0,
                    hedges |-> 0, exact_scalars |-> 0, other_scalars |-> 0, approx_flag_set |-> 0, refine_iso |-> 0, l1same |-> 0]

\* the logged diagram with phases kept as reduced pairs (ZXGraph!FromAbs needs multiples of pi/4)
FromAbsRaw(j) ==
  LET nv == Len(j.v)
      ne == Len(j.e)
      vs == {j.v[i].id : i \in 1..nv}
      rec(v) == j.v[CHOOSE i \in 1..nv : j.v[i].id = v]
      es == {Edge(j.e[i].u, j.e[i].w) : i \in 1..ne}
      erec(e) == j.e[CHOOSE i \in 1..ne : Edge(j.e[i].u, j.e[i].w) = e]
  IN [vs |-> vs, ty |-> [v \in vs |-> rec(v).ty], ph |-> [v \in vs |-> CanonPair(rec(v).ph)],
      vr |-> [v \in vs |-> PZero], et |-> [e \in es |-> erec(e).t],
      ins |-> j.ins, outs |-> j.outs, sc |-> ScFromAbs(j.sc), sf |-> <<>>]
\* coordinates: abs_ext logs [id, row x10, qubit x10]; the document carries units of 0.001
CrdOf(j) == [v \in {j.crd[i][1] : i \in 1..Len(j.crd)} |->
               LET c == j.crd[CHOOSE i \in 1..Len(j.crd) : j.crd[i][1] = v] IN <<100 * c[2], 100 * c[3]>>]
DocOf(j) == [wire_vertices |-> [i \in 1..Len(j.wire_vertices) |-> LET w == j.wire_vertices[i] IN
                                  [name |-> w.name, boundary |-> w.boundary, coord |-> w.coord, input |-> w.input, output |-> w.output]],
             node_vertices |-> [i \in 1..Len(j.node_vertices) |-> LET n == j.node_vertices[i] IN
                                  [name |-> n.name, type |-> n.type, value |-> n.value, is_edge |-> n.is_edge, coord |-> n.coord]],
             undir_edges |-> [i \in 1..Len(j.undir_edges) |-> LET e == j.undir_edges[i] IN [src |-> e.src, tgt |-> e.tgt, type |-> e.type]],
             scalar |-> [present |-> j.scalar.present, power2 |-> j.scalar.power2, phase |-> j.scalar.phase,
                         ff |-> j.scalar.ff, is_zero |-> j.scalar.is_zero]]
Denotable(j) == AbsOK(j) /\ (\A i \in 1..Len(j.v) : j.v[i].ty \in {"B", "Z", "X"})
                /\ Cardinality({i \in 1..Len(j.v) : j.v[i].ty # "B"}) <= DENMAX
Unit(x) == [x EXCEPT !.sc = ROne]
\* bag equality of two sequences
SameBag(s, t) == Len(s) = Len(t) /\ \A x \in ToSet(s) \cup ToSet(t) :
                   Cardinality({i \in 1..Len(s) : s[i] = x}) = Cardinality({i \in 1..Len(t) : t[i] = x})
NoName(s) == [i \in 1..Len(s) |-> [f \in (DOMAIN s[i]) \ {"name"} |-> s[i][f]]]
IsEncodeUpToNames(doc, want) ==
  /\ Len(doc.undir_edges) = Len(want.undir_edges) /\ DocPlain(doc)
  /\ SameBag(NoName(doc.wire_vertices), NoName(want.wire_vertices))
  /\ SameBag(NoName(doc.node_vertices), NoName(want.node_vertices))
  /\ doc.scalar = want.scalar

Step(e) ==
  CASE e.k = "reset" ->
         LET den == Denotable(e.pre) IN
         /\ prer' = FromAbsRaw(e.pre) /\ crd' = CrdOf(e.pre) /\ presca' = e.pre.sca
         /\ pre' = IF den THEN FromAbs(e.pre) ELSE EmptyG
         /\ dpre' = [ok |-> den, t |-> IF den THEN Den(Unit(pre')) ELSE <<>>]
         /\ stats' = [stats EXCEPT !.diagrams = @ + 1]
         /\ UNCHANGED <<viol, drift>>
    [] e.k = "roundtrip" ->
         IF e.res # "ok" THEN
           /\ viol' = Append(viol, <<l, "NoError", e.via, e.be, e.res>>)
           /\ stats' = [stats EXCEPT !.roundtrips = @ + 1]
           /\ UNCHANGED <<pre, prer, crd, dpre, presca, drift>>
         ELSE
           LET post == FromAbsRaw(e.post)
               cpost == CrdOf(e.post)
               doc == DocOf(e.doc)
               isoPost == IsoAnchoredC(post, cpost, prer, crd)
               denOK == ~dpre.ok \/ (Denotable(e.post) /\ Den(Unit(FromAbs(e.post))) = dpre.t)
               wf == DocWF(doc)
               dec == DecodeWith(doc, PhOfRaw)
               means == wf /\ DocSimple(doc) /\ ~dec.panic /\ ~dec.unsupported /\ IsoAnchoredC(dec.g, dec.cg, prer, crd)
               exact == ExactPhasePow(prer.sc)[1]
               \* the decoded scalar (post) and the scalar fields as another reader understands them (doc)
               scPost == IF exact THEN e.scalar_exact_kept /\ ~e.sc_big /\ ScFromAbs(e.post.sc) = prer.sc /\ (e.post.sca => presca) ELSE e.scalar_close
               scDoc == IF exact THEN ScalarExactDoc(doc.scalar) /\ DecodeScalar(doc.scalar) = prer.sc ELSE e.doc_scalar_close
               scName == IF exact THEN "ScalarExact" ELSE "ScalarClose"
               same == IsEncodeUpToNames(doc, EncodeWith(prer, crd, ValOfRaw).doc)
               bad(ok, name) == IF ok THEN <<>> ELSE <<<<l, name, e.via, e.be>>>>
           IN /\ viol' = bad(isoPost, "IsoPost") \o bad(denOK, "DenPost") \o bad(wf, "DocWF") \o bad(means, "DocMeansPre")
                         \o (IF scPost /\ scDoc THEN <<>>
                             ELSE <<<<l, scName, e.via, e.be, IF scPost THEN "doc" ELSE IF scDoc THEN "post" ELSE "post+doc">>>>) \o viol
              /\ drift' = IF same THEN drift ELSE Append(drift, <<l, "DocIsEncode", e.via, e.be>>)
              /\ stats' = [stats EXCEPT !.roundtrips = @ + 1,
                             !.nontrivial = @ + (IF prer.vs # {} \/ prer.sc # ROne THEN 1 ELSE 0),
                             !.den_checked = @ + (IF dpre.ok THEN 1 ELSE 0),
                             !.raw_phase = @ + (IF \E v \in prer.vs : 4 % prer.ph[v][2] # 0 THEN 1 ELSE 0),
                             !.hbox = @ + (IF \E v \in prer.vs : prer.ty[v] = "Hbox" THEN 1 ELSE 0),
                             !.hedges = @ + Cardinality({x \in DOMAIN prer.et : prer.et[x] = "H"}),
                             !.exact_scalars = @ + (IF exact THEN 1 ELSE 0),
                             !.other_scalars = @ + (IF exact THEN 0 ELSE 1),
                             !.approx_flag_set = @ + (IF exact /\ e.post.sca THEN 1 ELSE 0),
                             !.refine_iso = @ + (IF Cardinality(prer.vs) > 6 THEN 1 ELSE 0),
                             !.l1same = @ + (IF same THEN 1 ELSE 0)]
              /\ UNCHANGED <<pre, prer, crd, dpre, presca>>
Next == \/ /\ l <= NLines /\ Step(Rec[l]) /\ l' = l + 1
        \/ /\ l = NLines + 1 /\ Report(l, viol, drift, stats) /\ l' = l + 1 /\ UNCHANGED <<pre, prer, crd, dpre, presca, viol, drift, stats>>
=============================================================================
