CONSTANTS K = 1
TYS = {"Z","X"}
PHS = {0,1}
ETS = {"N","H"}
NB = 1
VARS = {}
BB = TRUE
INIT Init
NEXT Next
INVARIANT Emit
CHECK_DEADLOCK FALSE
