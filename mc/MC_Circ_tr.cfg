CONSTANTS NQ = 3
MAXLEN = 1
ONEQ = {}
TWOQ = {}
PHS = {1}
THREEQ = {"CCZ", "TOFF"}
PPQ <- PPQ_3
INIT Init
NEXT Next
INVARIANT TranslatedBoth
CHECK_DEADLOCK FALSE
