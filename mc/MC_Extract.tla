----------------------------- MODULE MC_Extract -----------------------------
(* C03 on the specification: for every circuit over the alphabet, every order in which the chosen
   simplification strategy may fire its rules, and then the extraction state machine of
   spec/Extract.tla: in EVERY state  Den(g) ; CircSem(c)  is proportional to the source unitary
   (ExtInv), only basic gates are emitted, extraction never reaches the error state, and it ends
   with identity wires and CircSem(c) proportional to the source. *)
EXTENDS Extract, Simp
CONSTANTS NQ, MAXLEN, ONEQ, TWOQ, PHS, STRAT, GAUSS, TEMPLATE, SIMPMODE
VARIABLES c0, g, c, fr, gadgets, mode, u0
vars == <<c0, g, c, fr, gadgets, mode, u0>>
Qs == 0..(NQ - 1)
Pairs2 == {p \in Qs \X Qs : p[1] # p[2]}
Alphabet == {ExGate(t, <<q>>, 0) : t \in ONEQ, q \in Qs} \cup {ExGate("ZPhase", <<q>>, ph) : q \in Qs, ph \in PHS}
            \cup {ExGate(t, <<p[1], p[2]>>, 0) : t \in TWOQ, p \in Pairs2}
E0 == [n |-> NQ, gates |-> <<>>]
Init == c0 = E0 /\ g = EmptyG /\ c = E0 /\ fr = <<>> /\ gadgets = {} /\ mode = "build" /\ u0 = <<>>
\* TEMPLATE = <<>>: any gate of the alphabet at every position; otherwise position k draws from TEMPLATE[k]
\* (deep circuits whose frontier needs Gaussian elimination, without enumerating all circuits of that depth)
GateChoices(k) == IF TEMPLATE = <<>> THEN Alphabet ELSE IF k <= Len(TEMPLATE) THEN TEMPLATE[k] ELSE {}
Build == /\ mode = "build" /\ Len(c0.gates) < MAXLEN
         /\ \E x \in GateChoices(Len(c0.gates) + 1) : c0' = [c0 EXCEPT !.gates = Append(@, x)]
         /\ UNCHANGED <<g, c, fr, gadgets, mode, u0>>
Start == /\ mode = "build" /\ (TEMPLATE = <<>> \/ Len(c0.gates) = Len(TEMPLATE)) /\ mode' = "simp" /\ g' = ToGraph(c0, FALSE) /\ u0' = CircSem(c0)
         /\ UNCHANGED <<c0, c, fr, gadgets>>
\* SIMPMODE = "all": every order in which the strategy may fire; "one": one (fixed) order, so that deep
\* circuits reach the extraction phases (Gauss, gadget pivots) without the interleavings of the simplifier,
\* which MC_Simp and the "all" configs cover
SimpStep == /\ mode = "simp" /\ SimpSteps(STRAT, g) # {}
            /\ IF SIMPMODE = "all" THEN \E r \in SimpSteps(STRAT, g) : g' = r.g
               ELSE g' = (CHOOSE r \in SimpSteps(STRAT, g) : TRUE).g
            /\ UNCHANGED <<c0, c, fr, gadgets, mode, u0>>
Begin == /\ mode = "simp" /\ Quiescent(STRAT, g) /\ mode' = "prepare" /\ gadgets' = InitGadgets(g)
         /\ UNCHANGED <<c0, g, c, fr, u0>>
DoPrepare == /\ mode = "prepare"
             /\ \E st \in PrepareSet(g, c) :
                /\ g' = st.g /\ c' = st.c /\ fr' = st.fr
                /\ mode' = IF st.err THEN "error" ELSE IF st.fr = <<>> THEN "perm" ELSE "gadget"
             /\ UNCHANGED <<c0, gadgets, u0>>
DoGadget == /\ mode = "gadget"
            /\ IF GadgetPairs(g, fr, gadgets) = {} THEN mode' = "extract" /\ UNCHANGED <<g, gadgets>>
               ELSE \E p \in GadgetPairs(g, fr, gadgets) :
                      IF CheckBoundaryPivot(g, p[1], p[2])
                      THEN g' = ApplyGenPivot(g, p[1], p[2]).g /\ gadgets' = gadgets \ {p[2]} /\ mode' = "prepare"
                      ELSE mode' = "error" /\ UNCHANGED <<g, gadgets>>
            /\ UNCHANGED <<c0, c, fr, u0>>
DoExtract(from, orElse) ==
  /\ mode = from
  /\ LET h == ExtractAll(g, [i \in 1..Len(fr) |-> fr[i][2]]) IN
     /\ g' = h /\ mode' = IF h # g THEN "prepare" ELSE orElse
  /\ UNCHANGED <<c0, c, fr, gadgets, u0>>
DoGauss == /\ mode = "gauss"
           /\ IF GAUSS = "none" THEN UNCHANGED <<g, c>> /\ mode' = "extract2"
              ELSE IF GAUSS \in {"single", "single_code"} THEN
                   LET cols == FNbrs(g, fr)
                       M == Biadj(g, fr, cols)
                       ch == IF GAUSS = "single" THEN SlnChoices(M) ELSE SlnCodeChoice(M)
                   IN IF ch = {} THEN mode' = "error" /\ UNCHANGED <<g, c>>          \* no extractable row: the diagram has no gflow
                      ELSE /\ mode' = "extract2"
                           /\ \E x \in ch : LET ops == SlnOps(x[2], x[3]) IN
                                g' = SetBiadj(g, fr, cols, ApplyOps(M, ops)) /\ c' = PushOps(c, fr, ops)
              ELSE LET cols == FNbrs(g, fr)
                       r == GJ(Biadj(g, fr, cols), <<>>, 1, 1)
                   IN g' = SetBiadj(g, fr, cols, r.m) /\ c' = PushOps(c, fr, r.ops) /\ mode' = "extract2"
           /\ UNCHANGED <<c0, fr, gadgets, u0>>
DoPerm == /\ mode = "perm"
          /\ IF ~IsWires(g) THEN mode' = "error" /\ UNCHANGED <<g, c>>
             ELSE LET p == WirePerm(g)
                      sw == PermSwaps(p, 1)
                      RECURSIVE push(_, _)
                      push(cc, s) == IF s = <<>> THEN cc ELSE push(PushFront(cc, ExGate("SWAP", <<Head(s)[1] - 1, Head(s)[2] - 1>>, 0)), Tail(s))
                  IN /\ c' = push(c, sw)
                     /\ g' = [g EXCEPT !.et = [e \in {{g.ins[i], g.outs[i]} : i \in 1..Len(g.ins)} |-> "N"]]
                     /\ mode' = "done"
          /\ UNCHANGED <<c0, fr, gadgets, u0>>
Next == Build \/ Start \/ SimpStep \/ Begin \/ DoPrepare \/ DoGadget \/ DoExtract("extract", "gauss")
        \/ DoExtract("extract2", "error") \/ DoGauss \/ DoPerm
NoTemplate == <<>>
CX(a, b) == ExGate("CNOT", <<a, b>>, 0)
T1(q) == ExGate("T", <<q>>, 0)
H1(q) == ExGate("HAD", <<q>>, 0)
\* variations around  cx 0,1; t 1; h 1; cx 1,0; t 0; cx 1,0  (a two-vertex frontier with three neighbours)
TmplGauss == << {CX(0, 1), CX(1, 0)}, {T1(1), T1(0)}, {H1(1), H1(0)}, {CX(1, 0), CX(0, 1)}, {T1(0), T1(1)}, {CX(1, 0), CX(0, 1), H1(0)} >>
TmplOne == << {CX(0, 1)}, {T1(1)}, {H1(1)}, {CX(1, 0)}, {T1(0)}, {CX(1, 0)} >>
\* start only from complete template circuits
ExtInv == mode \notin {"build", "error"} => ProjEq(Total(g, c), u0) /\ ~TIsZero(Total(g, c))
BasicOnly == BasicOnlyC(c)
NeverFails == mode # "error"
DoneOK == mode = "done" => ProjEq(CircSem(c), u0) /\ c.n = NQ
=============================================================================
