CONSTANTS Nodes <- N2
Root = 1
Kids <- K2
Kind <- T2
Leaf <- L2
W = 2
SPECIFICATION Spec
INVARIANT PartialOK
INVARIANT SchedIndep
INVARIANT NTermsLost
PROPERTY Terminates
CHECK_DEADLOCK FALSE
