CONSTANTS NQ = 2
MAXLEN = 3
ONEQ = {"T", "HAD"}
TWOQ = {"CNOT", "CZ"}
PHS = {}
STRAT = "clifford"
TEMPLATE <- NoTemplate
SIMPMODE = "all"
GAUSS = "single"
INIT Init
NEXT Next
INVARIANT ExtInv
INVARIANT BasicOnly
INVARIANT NeverFails
INVARIANT DoneOK
CHECK_DEADLOCK FALSE
