---------------------------- MODULE Trace_Compose ----------------------------
(* C11: validation of recorded plug / append / adjoint / basis plugging / is_identity calls.
   pair    : diagrams g and h (and, when they carry boolean variables, the variable set vs); DenV(g), DenV(h) computed once:
             the denotation under EVERY assignment of vs (one assignment, the empty one, for diagrams without variables)
   plug    : g.plug(h)            L2: Den(post) = Compose(Den g, Den h), no panic
   append  : g.append_graph(h) with boundaries concatenated      L2: = TensorProd
   adjoint : g.to_adjoint()       L2: = Dagger(Den g); involution flag
   plugin / plugout : plug_inputs / plug_outputs with a list     L2: = ApplyInputs / ApplyOutputs, no panic
   plugin1 / plugout1 : plug_input(i,b) / plug_output(i,b)
   plugin_f / plugout_f : plug_inputs / plug_outputs with the list mapped through BasisElem::flipped     L2: = Apply.. of the spec's BFlip list
   plugv   : plug_vertex(v, b) on the i-th input / output, vertex taken off the list by the harness   L2: = sqrt2 * Apply.. (no normalisation)
   isid    : is_identity()        L2: = IsIdentitySpec(g)
   xtoz    : x_to_z()             L2: Den unchanged
   copy    : copy(adjoint)        L2 CopyDenotesOK: = Den g / Dagger(Den g)   (see SWITCHES)
   subg    : subgraph_from_vertices on a union S of connected components and on its complement, boundary lists restricted by the harness
                                  L2 ComponentsClosed, SubgraphDenotes: Den g = sc * (Den sub_S (x) Den sub_rest) on the respective boundary positions
   basis   : BasisElem::flipped / is_x / is_z / phase of the five elements       L2 BasisAPIOK
   every equation is required under every assignment sig of the variables: Den(Inst(post, sig)) = expression over Den(Inst(g, sig)), Den(Inst(h, sig))
   L1: post equals the transcription (up to names of appended vertices) *)
EXTENDS TraceLib, Compose, FiniteSets, FiniteSetsExt
VARIABLES l, g, h, dg, dh, vs, viol, drift, stats
vars == <<l, g, h, dg, dh, vs, viol, drift, stats>>

(* ------------------------------------------------ SWITCHES ------------------------------------------------
   Three genuine defects of graph.rs are known on the unchanged tree (found by this trace specification, fixes prepared):
     /verif/work/gC_fix_1.diff  append_graph (hence plug) does not take over the conditional scalar factors of `other`
     /verif/work/gC_fix_2.diff  adjoint does not conjugate the conditional scalar factors
     /verif/work/gC_fix_3.diff  copy(adjoint) drops inputs, outputs, the scalar and the scalar factors
   While a switch is FALSE, a result that deviates from the property in EXACTLY that way (it satisfies the equation once the
   missing part is supplied) is counted in stats (sf_other_dropped / sf_not_conjugated / copy_incomplete); any other deviation is a
   violation as always.  Set a switch to TRUE once the corresponding fix is applied to /repo: the deviation is then a violation. *)
StrictAppendSF == TRUE
StrictAdjointSF == TRUE
StrictCopy == TRUE
(* ---------------------------------------------------------------------------------------------------------- *)

Init == l = 1 /\ g = EmptyG /\ h = EmptyG /\ dg = <<>> /\ dh = <<>> /\ vs = {} /\ viol = <<>> /\ drift = <<>>
        /\ stats = [pairs |-> 0, calls |-> 0, nontrivial |-> 0, l1same |-> 0, with_vars |-> 0, assignments |-> 0,
                    sf_other_dropped |-> 0, sf_not_conjugated |-> 0, copy_incomplete |-> 0, copies |-> 0, subgraphs |-> 0]
NI(x) == Len(x.ins)
NO(x) == Len(x.outs)
Sigs == [vs -> BOOLEAN]
OneList(n, i, b) == [k \in 1..(i + 1) |-> IF k = i + 1 THEN b ELSE "SKIP"]
FlipList(s) == [k \in 1..Len(s) |-> BFlip(s[k])]
DropAt(s, i) == SubSeq(s, 1, i) \o SubSeq(s, i + 2, Len(s))            \* Vec::remove(i), i counted from 0
\* the linear-algebra side of an event over the operands' denotations D (of g) and E (of h)
ExpectedOn(e, D, E) ==
  CASE e.k = "plug"    -> Compose(D, NI(g), NO(g), E, NO(h))
    \* g.plug(h); g.plug(h^dagger) on the SAME object: (g ; h) ; h^dagger
    [] e.k = "plug2"   -> Compose(Compose(D, NI(g), NO(g), E, NO(h)), NI(g), NO(h), Dagger(E, NI(h), NO(h)), NI(h))
    [] e.k = "append"  -> TensorProd(D, NI(g), NO(g), E, NI(h), NO(h))
    [] e.k = "adjoint" -> Dagger(D, NI(g), NO(g))
    [] e.k = "xtoz"    -> D
    [] e.k = "plugin"  -> ApplyInputs(D, NI(g), NO(g), e.list)
    [] e.k = "plugout" -> ApplyOutputs(D, NI(g), NO(g), e.list)
    [] e.k = "plugin_f"  -> ApplyInputs(D, NI(g), NO(g), FlipList(e.list))
    [] e.k = "plugout_f" -> ApplyOutputs(D, NI(g), NO(g), FlipList(e.list))
    [] e.k = "plugin1" -> ApplyInputs(D, NI(g), NO(g), OneList(NI(g), e.i, e.b))
    [] e.k = "plugout1" -> ApplyOutputs(D, NI(g), NO(g), OneList(NO(g), e.i, e.b))
    [] e.k = "plugv" -> TScale(IF e.side = "in" THEN ApplyInputs(D, NI(g), NO(g), OneList(NI(g), e.i, e.b))
                                                ELSE ApplyOutputs(D, NI(g), NO(g), OneList(NO(g), e.i, e.b)), Sqrt2Pow(1))
    [] e.k = "copy" -> IF e.adj THEN Dagger(D, NI(g), NO(g)) ELSE D
Expected(e, sig) == ExpectedOn(e, dg[sig], dh[sig])
\* the same with the part supplied that the known defects leave out: other's factors ignored (plug, append); g's factors conjugated
\* beforehand, so that leaving them unconjugated comes out right (adjoint)
ExpectedKnown(e, sig) ==
  CASE e.k \in {"plug", "append"} -> ExpectedOn(e, dg[sig], Den(Inst(NoSF(h), sig)))
    [] e.k = "adjoint" -> ExpectedOn(e, Den(Inst([g EXCEPT !.sf = ConjSF(g.sf)], sig)), dh[sig])
    [] OTHER -> Expected(e, sig)
SpecPost(e) ==
  CASE e.k = "plug"    -> Plug(g, h).g
    [] e.k = "plug2"   -> Plug(Plug(g, h).g, AdjointFull(h)).g
    [] e.k = "append"  -> Juxtapose(g, h)
    [] e.k = "adjoint" -> Adjoint(g)
    [] e.k = "xtoz"    -> XToZ(g)
    [] e.k = "plugin"  -> PlugInputs(g, e.list)
    [] e.k = "plugout" -> PlugOutputs(g, e.list)
    [] e.k = "plugin_f"  -> PlugInputs(g, FlipList(e.list))
    [] e.k = "plugout_f" -> PlugOutputs(g, FlipList(e.list))
    [] e.k = "plugin1" -> PlugInputs(g, OneList(NI(g), e.i, e.b))
    [] e.k = "plugout1" -> PlugOutputs(g, OneList(NO(g), e.i, e.b))
    [] e.k = "plugv" -> IF e.side = "in" THEN [PlugVertex(g, g.ins[e.i + 1], e.b) EXCEPT !.ins = DropAt(@, e.i)]
                                         ELSE [PlugVertex(g, g.outs[e.i + 1], e.b) EXCEPT !.outs = DropAt(@, e.i)]
\* the transcription with the conditional factors carried along (the code once work/gC_fix_1.diff / gC_fix_2.diff are applied)
SpecPostFull(e) ==
  CASE e.k = "plug"    -> [Plug(g, h).g EXCEPT !.sf = MergeSF(g.sf, h.sf)]
    [] e.k = "append"  -> JuxtaposeFull(g, h)
    [] e.k = "adjoint" -> AdjointFull(g)
    [] OTHER -> SpecPost(e)
SameUpToNew4(spec, impl, old) ==
  LET ns == spec.vs \ old
      ni == impl.vs \ old
  IN /\ Cardinality(ns) = Cardinality(ni) /\ spec.vs \cap old = impl.vs \cap old
     /\ IF ns = {} THEN spec = impl
        ELSE Cardinality(ns) <= 4 /\ \E m \in {f \in [ns -> ni] : \A x, y \in ns : x # y => f[x] # f[y]} :
               Rename(spec, [v \in spec.vs |-> IF v \in ns THEN m[v] ELSE v]) = impl
\* the variables of a result must be among those of the operands (else it cannot be instantiated: a violation)
VarsOK(x) == VarsOf(x) \subseteq vs
DenAll(x, E(_)) == VarsOK(x) /\ \A sig \in Sigs : Den(Inst(x, sig)) = E(sig)
\* [old name, new name] pairs logged by the harness (vertex identity kept in the row coordinate)
MapOf(e) == [v \in {e.map[i][1] : i \in 1..Len(e.map)} |-> e.map[CHOOSE i \in 1..Len(e.map) : e.map[i][1] = v][2]]
MapSeq(m, s) == [k \in 1..Len(s) |-> m[s[k]]]
BasisAPIOK(e) == \A i \in 1..Len(e.elems) : LET r == e.elems[i] IN
                   /\ FlipOK(r.b, r.flipped) /\ r.is_z = BIsZ(r.b) /\ r.is_x = (r.b \in {"X0", "X1"}) /\ PhU(r.ph) = BPhase(r.b)
Step(e) ==
  CASE e.k = "pair" ->
         LET gg == FromAbs(e.g)  hh == FromAbs(e.h)
             vv == IF Has(e, "vs") THEN ToSet(e.vs) ELSE {} IN
         /\ g' = gg /\ h' = hh /\ vs' = vv /\ dg' = DenV(gg, vv) /\ dh' = DenV(hh, vv)
         /\ stats' = [stats EXCEPT !.pairs = @ + 1, !.with_vars = @ + (IF vv # {} THEN 1 ELSE 0)] /\ UNCHANGED <<viol, drift>>
    [] e.k = "basis" ->
         /\ viol' = IF BasisAPIOK(e) THEN viol ELSE Append(viol, <<l, "BasisAPIOK">>)
         /\ stats' = [stats EXCEPT !.calls = @ + 1] /\ UNCHANGED <<g, h, dg, dh, vs, drift>>
    [] e.k = "isid" ->
         /\ viol' = IF e.res # "ok" THEN Append(viol, <<l, "NoPanic", e.k>>)
                    ELSE IF e.ret = IsIdentitySpec(g) THEN viol ELSE Append(viol, <<l, "IsIdentityOK">>)
         /\ stats' = [stats EXCEPT !.calls = @ + 1] /\ UNCHANGED <<g, h, dg, dh, vs, drift>>
    [] e.k = "copy" /\ e.res = "ok" ->
         LET post == FromAbs(e.post)
             m == MapOf(e)
             strict == DenAll(post, LAMBDA sig : Expected(e, sig))
             \* the copied body with what the code leaves out supplied: boundary lists (swapped for the adjoint), scalar, factors
             supplied == [post EXCEPT !.ins = MapSeq(m, IF e.adj THEN g.outs ELSE g.ins), !.outs = MapSeq(m, IF e.adj THEN g.ins ELSE g.outs),
                                      !.sc = IF e.adj THEN RConj(g.sc) ELSE g.sc, !.sf = IF e.adj THEN ConjSF(g.sf) ELSE g.sf]
             body == DOMAIN m = g.vs /\ DenAll(supplied, LAMBDA sig : Expected(e, sig))
             same == DOMAIN m = g.vs /\ post \in {Rename(CopyCode(g, e.adj), m), Rename(CopySpec(g, e.adj), m), Rename(IF e.adj THEN Adjoint(g) ELSE g, m)}
             consecutive == post.vs = 0..(Cardinality(post.vs) - 1)
         IN /\ viol' = (IF strict \/ (body /\ ~StrictCopy) THEN <<>> ELSE <<<<l, "CopyDenotesOK", IF body THEN "incomplete" ELSE "wrong">>>>)
                       \o (IF consecutive THEN <<>> ELSE <<<<l, "CopyConsecutive">>>>) \o viol
            /\ drift' = IF same THEN drift ELSE Append(drift, <<l, e.k, e.be>>)
            /\ stats' = [stats EXCEPT !.calls = @ + 1, !.copies = @ + 1, !.copy_incomplete = @ + (IF ~strict /\ body THEN 1 ELSE 0),
                                      !.l1same = @ + (IF same THEN 1 ELSE 0)]
            /\ UNCHANGED <<g, h, dg, dh, vs>>
    [] e.k = "subg" /\ e.res = "ok" ->
         LET S == ToSet(e.S)
             post == FromAbs(e.post)
             rest == FromAbs(e.rest)
             closed == Closed(g, S)
             n == Len(Bnd(g))
             denotes == VarsOK(post) /\ VarsOK(rest) /\ \A sig \in Sigs :
                          FactorsOK(dg[sig], n, Inst(g, sig).sc, Den(Inst(post, sig)), BndPosIn(g, S), Den(Inst(rest, sig)), BndPosIn(g, g.vs \ S))
             same == DOMAIN MapOf(e) = S /\ Rename(RestrictTo(g, S), MapOf(e)) = post
         IN /\ viol' = (IF closed THEN <<>> ELSE <<<<l, "ComponentsClosed">>>>) \o (IF ~closed \/ denotes THEN <<>> ELSE <<<<l, "SubgraphDenotes">>>>) \o viol
            /\ drift' = IF same THEN drift ELSE Append(drift, <<l, e.k, e.be>>)
            /\ stats' = [stats EXCEPT !.calls = @ + 1, !.subgraphs = @ + (IF S # {} /\ S # g.vs THEN 1 ELSE 0), !.l1same = @ + (IF same THEN 1 ELSE 0)]
            /\ UNCHANGED <<g, h, dg, dh, vs>>
    [] OTHER ->
         IF e.res # "ok" THEN
           /\ viol' = Append(viol, <<l, "NoPanic", e.k>>) /\ stats' = [stats EXCEPT !.calls = @ + 1]
           /\ UNCHANGED <<g, h, dg, dh, vs, drift>>
         ELSE
           LET post == FromAbs(e.post)
               ok == DenAll(post, LAMBDA sig : Expected(e, sig))
               \* the known deviations (see SWITCHES): exact up to the factors the code does not carry along
               known == ~ok /\ e.k \in {"plug", "append", "adjoint"} /\ DenAll(post, LAMBDA sig : ExpectedKnown(e, sig))
               excused == known /\ (IF e.k = "adjoint" THEN ~StrictAdjointSF ELSE ~StrictAppendSF)
               inv == e.k # "adjoint" \/ e.involution
               same == SameUpToNew4(SpecPost(e), post, g.vs) \/ (e.k \in {"plug", "append", "adjoint"} /\ SameUpToNew4(SpecPostFull(e), post, g.vs))
           IN /\ viol' = (IF ok \/ excused THEN <<>> ELSE <<<<l, "DenotesOK", e.k, IF known THEN "scalar_factors" ELSE "map">>>>)
                         \o (IF inv THEN <<>> ELSE <<<<l, "AdjointInvolution">>>>) \o viol
              /\ drift' = IF same THEN drift ELSE Append(drift, <<l, e.k, e.be>>)
              /\ stats' = [stats EXCEPT !.calls = @ + 1, !.nontrivial = @ + (IF post # g THEN 1 ELSE 0),
                                        !.l1same = @ + (IF same THEN 1 ELSE 0), !.assignments = @ + Cardinality(Sigs),
                                        !.sf_other_dropped = @ + (IF known /\ e.k # "adjoint" THEN 1 ELSE 0),
                                        !.sf_not_conjugated = @ + (IF known /\ e.k = "adjoint" THEN 1 ELSE 0)]
              /\ UNCHANGED <<g, h, dg, dh, vs>>
Next == \/ /\ l <= NLines /\ Step(Rec[l]) /\ l' = l + 1
        \/ /\ l = NLines + 1 /\ Report(l, viol, drift, stats) /\ l' = l + 1 /\ UNCHANGED <<g, h, dg, dh, vs, viol, drift, stats>>
=============================================================================
