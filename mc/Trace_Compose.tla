---------------------------- MODULE Trace_Compose ----------------------------
(* C11: validation of recorded plug / append / adjoint / basis plugging / is_identity calls.
   pair    : diagrams g and h; Den(g), Den(h) computed once
   plug    : g.plug(h)            L2: Den(post) = Compose(Den g, Den h), no panic
   append  : g.append_graph(h) with boundaries concatenated      L2: = TensorProd
   adjoint : g.to_adjoint()       L2: = Dagger(Den g); involution flag
   plugin / plugout : plug_inputs / plug_outputs with a list     L2: = ApplyInputs / ApplyOutputs, no panic
   plugin1 / plugout1 : plug_input(i,b) / plug_output(i,b)
   isid    : is_identity()        L2: = IsIdentitySpec(g)
   xtoz    : x_to_z()             L2: Den unchanged
   L1: post equals the transcription (up to names of appended vertices) *)
EXTENDS TraceLib, Compose, FiniteSets, FiniteSetsExt
VARIABLES l, g, h, dg, dh, viol, drift, stats
vars == <<l, g, h, dg, dh, viol, drift, stats>>
Init == l = 1 /\ g = EmptyG /\ h = EmptyG /\ dg = <<>> /\ dh = <<>> /\ viol = <<>> /\ drift = <<>>
        /\ stats = [pairs |-> 0, calls |-> 0, nontrivial |-> 0, l1same |-> 0]
NI(x) == Len(x.ins)
NO(x) == Len(x.outs)
OneList(n, i, b) == [k \in 1..(i + 1) |-> IF k = i + 1 THEN b ELSE "SKIP"]
Expected(e) ==
  CASE e.k = "plug"    -> Compose(dg, NI(g), NO(g), dh, NO(h))
    [] e.k = "append"  -> TensorProd(dg, NI(g), NO(g), dh, NI(h), NO(h))
    [] e.k = "adjoint" -> Dagger(dg, NI(g), NO(g))
    [] e.k = "xtoz"    -> dg
    [] e.k = "plugin"  -> ApplyInputs(dg, NI(g), NO(g), e.list)
    [] e.k = "plugout" -> ApplyOutputs(dg, NI(g), NO(g), e.list)
    [] e.k = "plugin1" -> ApplyInputs(dg, NI(g), NO(g), OneList(NI(g), e.i, e.b))
    [] e.k = "plugout1" -> ApplyOutputs(dg, NI(g), NO(g), OneList(NO(g), e.i, e.b))
SpecPost(e) ==
  CASE e.k = "plug"    -> Plug(g, h).g
    [] e.k = "append"  -> Juxtapose(g, h)
    [] e.k = "adjoint" -> Adjoint(g)
    [] e.k = "xtoz"    -> XToZ(g)
    [] e.k = "plugin"  -> PlugInputs(g, e.list)
    [] e.k = "plugout" -> PlugOutputs(g, e.list)
    [] e.k = "plugin1" -> PlugInputs(g, OneList(NI(g), e.i, e.b))
    [] e.k = "plugout1" -> PlugOutputs(g, OneList(NO(g), e.i, e.b))
SameUpToNew4(spec, impl, old) ==
  LET ns == spec.vs \ old
      ni == impl.vs \ old
  IN /\ Cardinality(ns) = Cardinality(ni) /\ spec.vs \cap old = impl.vs \cap old
     /\ IF ns = {} THEN spec = impl
        ELSE Cardinality(ns) <= 4 /\ \E m \in {f \in [ns -> ni] : \A x, y \in ns : x # y => f[x] # f[y]} :
               Rename(spec, [v \in spec.vs |-> IF v \in ns THEN m[v] ELSE v]) = impl
Step(e) ==
  CASE e.k = "pair" ->
         LET gg == FromAbs(e.g)  hh == FromAbs(e.h) IN
         /\ g' = gg /\ h' = hh /\ dg' = Den(gg) /\ dh' = Den(hh)
         /\ stats' = [stats EXCEPT !.pairs = @ + 1] /\ UNCHANGED <<viol, drift>>
    [] e.k = "isid" ->
         /\ viol' = IF e.res # "ok" THEN Append(viol, <<l, "NoPanic", e.k>>)
                    ELSE IF e.ret = IsIdentitySpec(g) THEN viol ELSE Append(viol, <<l, "IsIdentityOK">>)
         /\ stats' = [stats EXCEPT !.calls = @ + 1] /\ UNCHANGED <<g, h, dg, dh, drift>>
    [] OTHER ->
         IF e.res # "ok" THEN
           /\ viol' = Append(viol, <<l, "NoPanic", e.k>>) /\ stats' = [stats EXCEPT !.calls = @ + 1]
           /\ UNCHANGED <<g, h, dg, dh, drift>>
         ELSE
           LET post == FromAbs(e.post)
               ok == Den(post) = Expected(e)
               inv == e.k # "adjoint" \/ e.involution
               same == SameUpToNew4(SpecPost(e), post, g.vs)
           IN /\ viol' = (IF ok THEN <<>> ELSE <<<<l, "DenotesOK", e.k>>>>) \o (IF inv THEN <<>> ELSE <<<<l, "AdjointInvolution">>>>) \o viol
              /\ drift' = IF same THEN drift ELSE Append(drift, <<l, e.k, e.be>>)
              /\ stats' = [stats EXCEPT !.calls = @ + 1, !.nontrivial = @ + (IF post # g THEN 1 ELSE 0),
                                        !.l1same = @ + (IF same THEN 1 ELSE 0)]
              /\ UNCHANGED <<g, h, dg, dh>>
Next == \/ /\ l <= NLines /\ Step(Rec[l]) /\ l' = l + 1
        \/ /\ l = NLines + 1 /\ Report(l, viol, drift, stats) /\ l' = l + 1 /\ UNCHANGED <<g, h, dg, dh, viol, drift, stats>>
=============================================================================
