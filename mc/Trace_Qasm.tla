----------------------------- MODULE Trace_Qasm -----------------------------
(* C14: validation of recorded QASM printing / parsing of the real code against spec/Qasm.tla.
   circ      : a circuit c (phases as the raw reduced pairs [num, den])
   roundtrip : c.to_qasm() read back by Circuit::from_qasm
               L2 RoundTripOK    (c in the property's domain): res = ok and the parsed circuit = c
                                 (qubit count, gate kinds, qubit arguments, phases)
               L2 UndefinedIsErr (c prints a gate name the front end does not declare, QParse(QPrint(c)) = err):
                                 res = err -- no panic, no circuit with the gate dropped
               L1 the text is the rendering of QPrint(c) and the result is QParse(QPrint(c))
   parse     : an abstract program, rendered to text by the harness, read by Circuit::from_qasm
               L2 ParseOK          QParse(prog) = ok  =>  res = ok and the same circuit (decimal spellings of a
                                   phase: the harness's tolerance verdict `close`)
               L2 UnsupportedIsErr QParse(prog) = err =>  res = err (never panic, never ok)
               programs outside the property's text (measure, built-in CX, ill-typed statements): L1 only
   name      : one row of the real name table; L2 NameRoundTrip for the property's kinds, L1 equality with the spec's table
   arity     : GType::num_qubits of one kind; L2 ArityTable for the property's kinds (the arity its gate name is declared
               with), L1 equality with the spec's table for the others
   parsex    : an EXTENDED program (whole-register operands = broadcast, user gate definitions; spec/Qasm.tla QParseX),
               rendered by the harness, read by Circuit::from_qasm or Circuit::from_file (field via)
               L2 NoPanic          never a panic
               L2 DenotedOrErr     res = ok  =>  the circuit is exactly the one the text denotes (QParseX: every
                                   application of the broadcast, every statement of every inlined body, in order):
                                   no gate dropped, none invented (an error instead is allowed: the property does
                                   not promise that these constructs are supported)
               L2 UnsupportedIsErr an undefined gate name anywhere in the text, or barrier / reset / U applied at top
                                   level or through the body of an applied gate  =>  res = err
               L1 res agrees with QParseX(prog) (accepted / rejected)
   fromfile  : Circuit::from_file on a missing path / a directory / an empty file: L2 NoPanic; the answers are counted
   Every parse / roundtrip event carries via = str | file: every third text is read through Circuit::from_file. *)
EXTENDS TraceLib, Qasm

VARIABLES l, c, viol, drift, stats
vars == <<l, c, viol, drift, stats>>
Init == l = 1 /\ c = [n |-> 0, gates |-> <<>>] /\ viol = <<>> /\ drift = <<>>
        /\ stats = [circuits |-> 0, roundtrips |-> 0, in_domain |-> 0, programs |-> 0, expected_ok |-> 0, expected_err |-> 0,
                    beyond |-> 0, names |-> 0, nontrivial |-> 0, l1same |-> 0,
                    via_file |-> 0, arities |-> 0, xprograms |-> 0, x_expected_ok |-> 0, x_must_err |-> 0, x_broadcast |-> 0,
                    x_defs_applied |-> 0, x_ok |-> 0, x_gates |-> 0, fromfile_ok |-> 0, fromfile_err |-> 0]

IsPlain(s) == s.s = "gate" /\ s.form \in {"plain", "plain11", "mixed"}
\* the parsed circuit of a parse event against the circuit x the specification computes (one gate per statement)
SameCirc(e, x) ==
  /\ e.out.n = x.n /\ Len(e.out.gates) = Len(x.gates) /\ Len(e.close) = Len(x.gates)
  /\ \A i \in 1..Len(x.gates) :
       LET g == e.out.gates[i]
           w == x.gates[i] IN
       /\ g.t = w.t /\ g.qs = w.qs /\ g.vars = w.vars
       /\ IF IsPlain(e.prog.stmts[i]) THEN e.close[i] ELSE g.ph = w.ph
B(x) == IF x THEN 1 ELSE 0
\* the parsed circuit of a parsex event against the circuit the specification computes: identical gate lists
SameCircX(o, x) ==
  /\ o.n = x.n /\ Len(o.gates) = Len(x.gates)
  /\ \A i \in 1..Len(x.gates) :
       LET g == o.gates[i]
           w == x.gates[i] IN
       g.t = w.t /\ g.qs = w.qs /\ g.vars = w.vars /\ g.ph = w.ph
ViaFile(e) == B(Has(e, "via") /\ e.via = "file")

Step(e) ==
  CASE e.k = "circ" ->
         /\ c' = QCircFromAbs(e.c)
         /\ stats' = [stats EXCEPT !.circuits = @ + 1]
         /\ UNCHANGED <<viol, drift>>
    [] e.k = "begin" -> UNCHANGED <<c, viol, drift, stats>>
    [] e.k = "roundtrip" ->
         LET ind == QInDomain(c)
             exp == QParse(QPrint(c))
             out == QCircFromAbs(e.out)
             ok2 == IF ind THEN e.res = "ok" /\ out = c
                    ELSE IF exp.res = "err" THEN e.res = "err" ELSE TRUE
             same == /\ e.text_ok /\ QProgCore(e.printed) = QPrint(c)
                     /\ \/ exp.res = "err" /\ e.res = "err"
                        \/ exp.res = "ok" /\ e.res = "ok" /\ out = exp.circ
         IN /\ viol' = IF ok2 THEN viol ELSE Append(viol, <<l, IF ind THEN "RoundTripOK" ELSE "UndefinedIsErr", e.res>>)
            /\ drift' = IF same THEN drift ELSE Append(drift, <<l, "PrintParse", e.res>>)
            /\ stats' = [stats EXCEPT !.roundtrips = @ + 1, !.in_domain = @ + B(ind), !.nontrivial = @ + B(Len(c.gates) > 0),
                                      !.l1same = @ + B(same), !.via_file = @ + ViaFile(e)]
            /\ UNCHANGED c
    [] e.k = "parse" ->
         LET exp == QParse(e.prog)
             inprop == QInProperty(e.prog)
             match == IF exp.res = "err" THEN e.res = "err" ELSE e.res = "ok" /\ SameCirc(e, exp.circ)
             pred == IF exp.res = "err" THEN "UnsupportedIsErr" ELSE "ParseOK"
         IN /\ viol' = IF match \/ ~inprop THEN viol ELSE Append(viol, <<l, pred, e.res>>)
            /\ drift' = IF match \/ inprop THEN drift ELSE Append(drift, <<l, "ParseBeyond", e.res>>)
            /\ stats' = [stats EXCEPT !.programs = @ + 1, !.expected_ok = @ + B(exp.res = "ok"), !.expected_err = @ + B(exp.res = "err"),
                                      !.beyond = @ + B(~inprop), !.nontrivial = @ + B(Len(e.prog.stmts) > 0), !.l1same = @ + B(match),
                                      !.via_file = @ + ViaFile(e)]
            /\ UNCHANGED c
    [] e.k = "name" ->
         LET ok2 == (e.kind \in QPropKinds) => (e.back = e.kind)
             same == e.name = NameOfKind(e.kind) /\ e.back = KindOfName(e.name)
         IN /\ viol' = IF ok2 THEN viol ELSE Append(viol, <<l, "NameRoundTrip", e.kind>>)
            /\ drift' = IF same THEN drift ELSE Append(drift, <<l, "NameTable", e.kind>>)
            /\ stats' = [stats EXCEPT !.names = @ + 1, !.l1same = @ + B(same)]
            /\ UNCHANGED c
    [] e.k = "arity" ->
         LET ok2 == (e.kind \in QPropKinds) => (e.nq = QArity(NameOfKind(e.kind)))
             same == e.nq = QKindNumQubits(e.kind)
         IN /\ viol' = IF ok2 THEN viol ELSE Append(viol, <<l, "ArityTable", e.kind>>)
            /\ drift' = IF same THEN drift ELSE Append(drift, <<l, "ArityTable", e.kind>>)
            /\ stats' = [stats EXCEPT !.arities = @ + 1, !.l1same = @ + B(same)]
            /\ UNCHANGED c
    [] e.k = "parsex" ->
         LET exp == QParseX(e.prog)
             must == QXMustErr(e.prog)
             agree == IF exp.res = "err" THEN e.res = "err" ELSE e.res = "ok" /\ SameCircX(e.out, exp.circ)
             v1 == IF e.res = "panic" THEN <<<<l, "NoPanic", e.res>>>> ELSE <<>>
             v2 == IF e.res = "ok" /\ exp.res = "ok" /\ ~SameCircX(e.out, exp.circ) THEN <<<<l, "DenotedOrErr", e.res>>>> ELSE <<>>
             v3 == IF must /\ e.res = "ok" THEN <<<<l, "UnsupportedIsErr", e.res>>>> ELSE <<>>
         IN /\ viol' = viol \o v1 \o v2 \o v3
            /\ drift' = IF agree \/ e.res = "panic" THEN drift ELSE Append(drift, <<l, "ParseX", e.res>>)
            /\ stats' = [stats EXCEPT !.xprograms = @ + 1, !.x_expected_ok = @ + B(exp.res = "ok"), !.x_must_err = @ + B(must),
                                      !.x_broadcast = @ + B(QXHasBroadcast(e.prog)), !.x_defs_applied = @ + B(QXAppliesDef(e.prog)),
                                      !.x_ok = @ + B(e.res = "ok"), !.x_gates = @ + Len(e.out.gates),
                                      !.nontrivial = @ + B(Len(e.prog.stmts) > 0), !.l1same = @ + B(agree), !.via_file = @ + ViaFile(e)]
            /\ UNCHANGED c
    [] e.k = "fromfile" ->
         /\ viol' = IF e.res = "panic" THEN Append(viol, <<l, "NoPanic", e.case>>) ELSE viol
         /\ stats' = [stats EXCEPT !.fromfile_ok = @ + B(e.res = "ok"), !.fromfile_err = @ + B(e.res = "err")]
         /\ UNCHANGED <<c, drift>>
    [] e.k = "fromname" ->
         LET same == e.kind = KindOfName(e.name)
         IN /\ drift' = IF same THEN drift ELSE Append(drift, <<l, "NameTable", e.name>>)
            /\ stats' = [stats EXCEPT !.names = @ + 1, !.l1same = @ + B(same)]
            /\ UNCHANGED <<c, viol>>
Next == \/ /\ l <= NLines /\ Step(Rec[l]) /\ l' = l + 1
        \/ /\ l = NLines + 1 /\ Report(l, viol, drift, stats) /\ l' = l + 1
           /\ UNCHANGED <<c, viol, drift, stats>>
=============================================================================
