----------------------------- MODULE Trace_Qasm -----------------------------
(* C14: validation of recorded QASM printing / parsing of the real code against spec/Qasm.tla.
   circ      : a circuit c (phases as the raw reduced pairs [num, den])
   roundtrip : c.to_qasm() read back by Circuit::from_qasm
               L2 RoundTripOK    (c in the property's domain): res = ok and the parsed circuit = c
                                 (qubit count, gate kinds, qubit arguments, phases)
               L2 UndefinedIsErr (c prints a gate name the front end does not declare, QParse(QPrint(c)) = err):
                                 res = err -- no panic, no circuit with the gate dropped
               L1 the text is the rendering of QPrint(c) and the result is QParse(QPrint(c))
   parse     : an abstract program, rendered to text by the harness, read by Circuit::from_qasm
               L2 ParseOK          QParse(prog) = ok  =>  res = ok and the same circuit (decimal spellings of a
                                   phase: the harness's tolerance verdict `close`)
               L2 UnsupportedIsErr QParse(prog) = err =>  res = err (never panic, never ok)
               programs outside the property's text (measure, built-in CX, ill-typed statements): L1 only
   name      : one row of the real name table; L2 NameRoundTrip for the property's kinds, L1 equality with the spec's table *)
EXTENDS TraceLib, Qasm

VARIABLES l, c, viol, drift, stats
vars == <<l, c, viol, drift, stats>>
Init == l = 1 /\ c = [n |-> 0, gates |-> <<>>] /\ viol = <<>> /\ drift = <<>>
        /\ stats = [circuits |-> 0, roundtrips |-> 0, in_domain |-> 0, programs |-> 0, expected_ok |-> 0, expected_err |-> 0,
                    beyond |-> 0, names |-> 0, nontrivial |-> 0, l1same |-> 0]

IsPlain(s) == s.s = "gate" /\ s.form \in {"plain", "plain11", "mixed"}
\* the parsed circuit of a parse event against the circuit x the specification computes (one gate per statement)
SameCirc(e, x) ==
  /\ e.out.n = x.n /\ Len(e.out.gates) = Len(x.gates) /\ Len(e.close) = Len(x.gates)
  /\ \A i \in 1..Len(x.gates) :
       LET g == e.out.gates[i]
           w == x.gates[i] IN
       /\ g.t = w.t /\ g.qs = w.qs /\ g.vars = w.vars
       /\ IF IsPlain(e.prog.stmts[i]) THEN e.close[i] ELSE g.ph = w.ph
B(x) == IF x THEN 1 ELSE 0

Step(e) ==
  CASE e.k = "circ" ->
         /\ c' = QCircFromAbs(e.c)
         /\ stats' = [stats EXCEPT !.circuits = @ + 1]
         /\ UNCHANGED <<viol, drift>>
    [] e.k = "begin" -> UNCHANGED <<c, viol, drift, stats>>
    [] e.k = "roundtrip" ->
         LET ind == QInDomain(c)
             exp == QParse(QPrint(c))
             out == QCircFromAbs(e.out)
             ok2 == IF ind THEN e.res = "ok" /\ out = c
                    ELSE IF exp.res = "err" THEN e.res = "err" ELSE TRUE
             same == /\ e.text_ok /\ QProgCore(e.printed) = QPrint(c)
                     /\ \/ exp.res = "err" /\ e.res = "err"
                        \/ exp.res = "ok" /\ e.res = "ok" /\ out = exp.circ
         IN /\ viol' = IF ok2 THEN viol ELSE Append(viol, <<l, IF ind THEN "RoundTripOK" ELSE "UndefinedIsErr", e.res>>)
            /\ drift' = IF same THEN drift ELSE Append(drift, <<l, "PrintParse", e.res>>)
            /\ stats' = [stats EXCEPT !.roundtrips = @ + 1, !.in_domain = @ + B(ind), !.nontrivial = @ + B(Len(c.gates) > 0),
                                      !.l1same = @ + B(same)]
            /\ UNCHANGED c
    [] e.k = "parse" ->
         LET exp == QParse(e.prog)
             inprop == QInProperty(e.prog)
             match == IF exp.res = "err" THEN e.res = "err" ELSE e.res = "ok" /\ SameCirc(e, exp.circ)
             pred == IF exp.res = "err" THEN "UnsupportedIsErr" ELSE "ParseOK"
         IN /\ viol' = IF match \/ ~inprop THEN viol ELSE Append(viol, <<l, pred, e.res>>)
            /\ drift' = IF match \/ inprop THEN drift ELSE Append(drift, <<l, "ParseBeyond", e.res>>)
            /\ stats' = [stats EXCEPT !.programs = @ + 1, !.expected_ok = @ + B(exp.res = "ok"), !.expected_err = @ + B(exp.res = "err"),
                                      !.beyond = @ + B(~inprop), !.nontrivial = @ + B(Len(e.prog.stmts) > 0), !.l1same = @ + B(match)]
            /\ UNCHANGED c
    [] e.k = "name" ->
         LET ok2 == (e.kind \in QPropKinds) => (e.back = e.kind)
             same == e.name = NameOfKind(e.kind) /\ e.back = KindOfName(e.name)
         IN /\ viol' = IF ok2 THEN viol ELSE Append(viol, <<l, "NameRoundTrip", e.kind>>)
            /\ drift' = IF same THEN drift ELSE Append(drift, <<l, "NameTable", e.kind>>)
            /\ stats' = [stats EXCEPT !.names = @ + 1, !.l1same = @ + B(same)]
            /\ UNCHANGED c
    [] e.k = "fromname" ->
         LET same == e.kind = KindOfName(e.name)
         IN /\ drift' = IF same THEN drift ELSE Append(drift, <<l, "NameTable", e.name>>)
            /\ stats' = [stats EXCEPT !.names = @ + 1, !.l1same = @ + B(same)]
            /\ UNCHANGED <<c, viol>>
Next == \/ /\ l <= NLines /\ Step(Rec[l]) /\ l' = l + 1
        \/ /\ l = NLines + 1 /\ Report(l, viol, drift, stats) /\ l' = l + 1
           /\ UNCHANGED <<c, viol, drift, stats>>
=============================================================================
