CONSTANTS Nodes <- N1
Root = 1
Kids <- K1
Kind <- T1
Leaf <- L1
W = 2
SPECIFICATION Spec
INVARIANT PartialOK
INVARIANT SchedIndep
INVARIANT NTermsLost
PROPERTY Terminates
CHECK_DEADLOCK FALSE
