CONSTANTS NQ = 3
MAXLEN = 2
ONEQ = {"Z", "S", "T", "Sdg", "Tdg", "NOT", "HAD"}
TWOQ = {"CNOT", "CZ", "XCX", "SWAP"}
PHS = {1, 6}
THREEQ = {"CCZ", "TOFF"}
PPQ <- PPQ_3
INIT Init
NEXT Next
INVARIANT AdjointInverts
INVARIANT AdjointInvolutive
INVARIANT BasicPreserves
INVARIANT BasicCount
INVARIANT ConcatComposes
CHECK_DEADLOCK FALSE
