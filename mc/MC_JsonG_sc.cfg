CONSTANTS K = 1
TYS = {"Z","X"}
PHS = {0,1,4}
ETS = {"N","H"}
NB = 2
VARS = {}
BB = TRUE
SCN = 10
CMS = {"zero","distinct","rows"}
MUT = "none"
INIT Init
NEXT Next
INVARIANT NoPanicRT
INVARIANT DocOK
INVARIANT RoundTripIso
INVARIANT RoundTripDen
INVARIANT ScalarRT
INVARIANT DecodeOrder
INVARIANT IsoAgree
INVARIANT IsoSharp
CHECK_DEADLOCK FALSE
