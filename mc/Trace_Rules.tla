----------------------------- MODULE Trace_Rules -----------------------------
(* C04 / C10: validation of recorded rule applications of the real code.
   reset : a new diagram `pre`; its denotation under every assignment is computed once.
   acc   : the set of (rule, args) the real matchers accepted      -> L1 against Check
   try   : one accepted application with the observed post-state   -> L2 Sound, NoPanic;
                                                                      L1 post = Apply (up to new names)
   rej   : number of rejected tuples and those that were not no-ops -> L2 RejectIsNoop
   begin / rulef / rejf (engine flag --generic): the same on diagrams whose phases are NOT multiples of pi/4 ("to floating-point
           tolerance").  No exact denotation exists in Ring and TLC cannot decide floating point: the harness compares pre and post
           of every ACCEPTED application with its independent float reference evaluator (harness/src/refeval.rs, validated against
           the exact Den by Trace_Tensor!RefEvalOK; 1e-9) and logs the boolean `close` -> L2 SoundFloat, NoPanic (a panic of the
           matcher or of the accepted rule); rejf lists the REJECTED tuples whose checked form did not return false or did not
           leave the graph unchanged (backend PartialEq and abs JSON) -> L2 RejectIsNoopFloat *)
EXTENDS TraceLib, ZXSem, Rules, FiniteSets, FiniteSetsExt

VARIABLES l, cur, den0, vset, viol, drift, stats
vars == <<l, cur, den0, vset, viol, drift, stats>>

Init == l = 1 /\ cur = EmptyG /\ den0 = <<>> /\ vset = {} /\ viol = <<>> /\ drift = <<>>
        /\ stats = [diagrams |-> 0, tries |-> 0, sound |-> 0, l1same |-> 0, rejected |-> 0,
                    generic_diagrams |-> 0, generic_tries |-> 0, generic_close |-> 0, generic_approx |-> 0, generic_rejected |-> 0, generic_toobig |-> 0, generic_changed |-> 0]

ArgNames(g) == LET top == IF g.vs = {} THEN 0 ELSE Max(g.vs) IN g.vs \cup {top + 1, top + 6}
Accepted1(g) == {t \in {<<R, <<a>>>> : R \in Rules1, a \in ArgNames(g)} : Check(t[1], g, t[2])}
Accepted2(g) == {t \in {<<R, <<a, b>>>> : R \in Rules2, a \in ArgNames(g), b \in ArgNames(g)} : Check(t[1], g, t[2])}


Step(e) ==
  CASE e.k = "reset" ->
         LET g == FromAbs(e.pre) IN
         /\ cur' = g
         /\ vset' = VarsOf(g)
         /\ den0' = DenV(g, VarsOf(g))
         /\ stats' = [stats EXCEPT !.diagrams = @ + 1]
         /\ UNCHANGED <<viol, drift>>
    [] e.k = "acc" ->
         LET impl == {<<e.set[i][1], e.set[i][2]>> : i \in 1..Len(e.set)}
             spec == Accepted1(cur) \cup Accepted2(cur)
         IN /\ drift' = IF impl = spec THEN drift ELSE Append(drift, <<l, "Check", (impl \ spec) \cup (spec \ impl)>>)
            /\ UNCHANGED <<cur, den0, vset, viol, stats>>
    [] e.k = "try" ->
         IF e.res # "ok" THEN
           /\ viol' = Append(viol, <<l, "NoPanic">>)
           /\ stats' = [stats EXCEPT !.tries = @ + 1]
           /\ UNCHANGED <<cur, den0, vset, drift>>
         ELSE
           LET post == FromAbs(e.post)
               vs2 == vset \cup VarsOf(post)
               d0 == IF vs2 = vset THEN den0 ELSE DenV(cur, vs2)
               sound == DenV(post, vs2) = d0
               same == Check(e.rule, cur, e.args)
                       /\ \E sp \in ApplySet(e.rule, cur, e.args) : ~sp.panic /\ SameUpToNew(sp.g, post, cur.vs)
           IN /\ viol' = IF sound THEN viol ELSE Append(viol, <<l, "Sound">>)
              /\ drift' = IF same THEN drift ELSE Append(drift, <<l, "Apply", e.rule>>)
              /\ stats' = [stats EXCEPT !.tries = @ + 1, !.sound = @ + (IF sound THEN 1 ELSE 0),
                                        !.l1same = @ + (IF same THEN 1 ELSE 0)]
              /\ UNCHANGED <<cur, den0, vset>>
    [] e.k = "begin" -> stats' = [stats EXCEPT !.generic_diagrams = @ + 1] /\ UNCHANGED <<cur, den0, vset, viol, drift>>
    [] e.k = "rulef" ->
         /\ viol' = IF e.res \in {"panic", "check_panic"} THEN Append(viol, <<l, "NoPanic">>)
                    ELSE IF e.res = "ok" /\ ~e.close THEN Append(viol, <<l, "SoundFloat">>)
                    ELSE viol
         /\ stats' = [stats EXCEPT !.generic_tries = @ + 1, !.generic_toobig = @ + (IF e.res = "toobig" THEN 1 ELSE 0),
                                   !.generic_close = @ + (IF e.res = "ok" /\ e.close THEN 1 ELSE 0),
                                   !.generic_approx = @ + (IF e.res = "ok" /\ e.approx THEN 1 ELSE 0),
                                   !.generic_changed = @ + (IF e.res = "ok" /\ e.changed THEN 1 ELSE 0)]
         /\ UNCHANGED <<cur, den0, vset, drift>>
    [] e.k = "rejf" ->
         /\ viol' = IF e.bad = <<>> THEN viol ELSE Append(viol, <<l, "RejectIsNoopFloat">>)
         /\ stats' = [stats EXCEPT !.generic_rejected = @ + e.n]
         /\ UNCHANGED <<cur, den0, vset, drift>>
    [] e.k = "rej" ->
         /\ viol' = IF e.bad = <<>> THEN viol ELSE Append(viol, <<l, "RejectIsNoop">>)
         /\ stats' = [stats EXCEPT !.rejected = @ + e.n]
         /\ UNCHANGED <<cur, den0, vset, drift>>

Next == \/ /\ l <= NLines /\ Step(Rec[l]) /\ l' = l + 1
        \/ /\ l = NLines + 1 /\ Report(l, viol, drift, stats) /\ l' = l + 1
           /\ UNCHANGED <<cur, den0, vset, viol, drift, stats>>
=============================================================================
