CONSTANTS NQ = 2
MAXLEN = 3
ONEQ = {"T", "HAD"}
TWOQ = {"CNOT", "CZ"}
PHS = {}
STRAT = "full"
TEMPLATE <- NoTemplate
SIMPMODE = "all"
GAUSS = "simple"
INIT Init
NEXT Next
INVARIANT ExtInv
INVARIANT BasicOnly
INVARIANT NeverFails
INVARIANT DoneOK
CHECK_DEADLOCK FALSE
