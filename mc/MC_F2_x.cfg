CONSTANTS SHAPES <- Shapes_x
ALG_MAX = 0
INIT Init
NEXT Next
INVARIANT RowSpaceUnchanged
INVARIANT ResultEchelon
INVARIANT RankReturned
INVARIANT PivotsAreLeads
INVARIANT OpsGiveResult
INVARIANT OpsAreTransvections
INVARIANT ReducedFormUnique
INVARIANT RankDefinitionsAgree
INVARIANT InverseTwoSided
INVARIANT NullspaceBasis
INVARIANT TransposeInvolutive
INVARIANT IdentityNeutral
CHECK_DEADLOCK FALSE
