------------------------------- MODULE MC_Simp -------------------------------
(* C01 / C10 on the specification: from every diagram of the family, every order in which a
   strategy may fire its rules keeps the denotation (under every assignment of the boolean
   variables), never panics, stays well-formed, and terminates. *)
EXTENDS Family, ZXSem, Simp
CONSTANT STRAT
VARIABLES g, mode, den0, panic
vars == <<g, mode, den0, panic>>
Init == g = EmptyG /\ mode = "b1" /\ den0 = <<>> /\ panic = FALSE
B1 == mode = "b1" /\ g' \in Shapes /\ mode' = "b2" /\ UNCHANGED <<den0, panic>>
B2 == mode = "b2" /\ g' \in Wirings(g) /\ mode' = "rw" /\ den0' = DenV(g', VARS) /\ UNCHANGED panic
RW == /\ mode = "rw" /\ ~panic
      /\ \E r \in SimpSteps(STRAT, g) : g' = r.g /\ panic' = r.panic
      /\ UNCHANGED <<mode, den0>>
Next == B1 \/ B2 \/ RW
Spec == Init /\ [][Next]_vars /\ WF_vars(Next)
Sound == mode = "rw" => (panic \/ DenV(g, VARS) = den0)
NoPanicInv == ~panic
StaysWF == mode = "rw" => (panic \/ WellFormed(g))
Terminates == <>[](~ENABLED Next)
=============================================================================
