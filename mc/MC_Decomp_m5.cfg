CONSTANTS K = 5
TPH = {1, 3}
SHAPE = "ts"
NB = 1
HUBPH = {0}
EXTRA = FALSE
CANDMAX = 3
ALLORD = FALSE
INIT Init
NEXT Next
INVARIANT StepSumOK
CHECK_DEADLOCK FALSE
