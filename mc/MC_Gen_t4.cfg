CONSTANTS N = 4
MAXF = 5
FULLMAX = 5
STABN = 2
ORDERED = TRUE
INIT Init
NEXT Next
INVARIANT PromiseEveryShift
INVARIANT NegativeControl
INVARIANT ShapeAccepts
INVARIANT SharpAmplitude
INVARIANT ZeroColumn
INVARIANT StabSpecOK
INVARIANT StabNegControl
INVARIANT LayerAdjointInverts
INVARIANT ExamplesJudged
CHECK_DEADLOCK FALSE
