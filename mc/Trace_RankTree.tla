--------------------------- MODULE Trace_RankTree ---------------------------
(* C18: executions of quizx::rankwidth validated against spec/RankTree.tla.
   begin  : graph (n, adj), the node array of random_decomp / of the annealer's initial tree, cache
   move   : one call of swap_random_leaves / random_local_swap / move_random_subtree; FULL node array
            and FULL cache after the call
   width  : rankwidth() and rankwidth_score() (and the same on a copy with an emptied cache); tree, cache after
   anneal : RankwidthAnnealer::run from the current tree (init_nodes); the returned tree, its cache, its width
   L2 (violations), all evaluated by TLC on the logged values with the spec's definitions:
     NoPanic / NoHang   no call panics (or fails to return within the harness watchdog)
     ValidTree          every logged array is a cubic tree whose leaves biject with the vertices
     CacheCoherent      every logged cache entry sits on a current tree edge and equals CutRank of
                        that edge's current partition (a move that forgets to clear is caught HERE,
                        at the move, before any width query observes it)
     WidthOK            reported rankwidth / score = max / sum of squares of the cut ranks recomputed
                        from scratch by the spec (F2 elimination RTRank) = the code's own recomputation
     AnnealValid, AnnealNoWorse   result valid, TrueWidth(result) <= TrueWidth(start)
   Direct calls with caller-chosen arguments, queries, hand-built trees, set_init_decomp, rank_decomp, hash backend
   (harness option --api, audit #16); every event carries the FULL node array and cache after the call:
     swapd   : path(c1, c2), clear_rank on its edges, swap_subtrees((p1, c1), (p2, c2)) for any two disjoint subtrees.
               `pre` = array before.  If the arguments are valid on a valid `pre` (RankTree!SwapArgsValid): PathIsTreePath,
               ValidTree, CacheCoherent after.  (stats.bad_args counts calls whose arguments were not valid: not judged)
     moved   : move_subtree(path(a, b)), cache emptied entirely or selectively (clear_rank, either key order): as above
     setrank : set_rank / clear_rank / rank with both spellings of the key: RankKeyOrder (both spellings read the value
               set; after set-then-clear through the other spelling both read nothing), CacheCoherent after
     compute : compute_ranks alone: CacheCoherent and ComputeFills (Width / Score of the cache = TrueWidth / TrueScore)
     query   : PartitionOK for every tree edge in both orientations, PathIsTreePath, EdgesOK (edges(), num_edges())
     sort    : sort_nhds: SortKeepsTree, ValidTree, CacheCoherent
     begin how = api_hand : a tree built with new / add_leaf / add_interior: ValidTree as for every begin
     anneal ctor = set_init_decomp : AnnealNoWorse is judged against the tree the caller INSTALLED (init_nodes)
     rank_decomp : the top-level entry point: AnnealValid, CacheCoherent, WidthOK
   L1 additions: SwapRefines / MoveRefines (the post-state is the transcription's), ComputeRefines, SetRankRefines,
   SortRefines, HandBuilt (the array is CaterpillarPerm and every returned index was the next free one), ParamReadback
   (the getters return what the setters stored; init_decomp() is the installed tree).
   L1 (drift only): the logged post-state is one of the results of the transcribed move for some
   choice of its random arguments; the cache after a width query is ComputeRanks of the one before;
   is_valid_for_graph agrees with ValidTree; the index lists leaves/interior agree with the array. *)
EXTENDS TraceLib, RankTree
VARIABLES l, gr, nodes, ranks, live, viol, drift, stats
vars == <<l, gr, nodes, ranks, live, viol, drift, stats>>
Init == l = 1 /\ gr = [n |-> 0, adj |-> {}] /\ nodes = <<>> /\ ranks = <<>> /\ live = FALSE
        /\ viol = <<>> /\ drift = <<>>
        /\ stats = [groups |-> 0, moves |-> 0, widths |-> 0, anneals |-> 0, panics |-> 0, nontrivial |-> 0,
                    direct |-> 0, bad_args |-> 0, queries |-> 0, hand_built |-> 0, hash_groups |-> 0, set_init |-> 0, rank_decomp |-> 0]
Check1(okk, name) == IF okk THEN <<>> ELSE <<<<l, name>>>>
GraphOf(e) == [n |-> e.n, adj |-> {<<e.adj[i][1], e.adj[i][2]>> : i \in 1..Len(e.adj)}]
CacheOf(c) ==
  LET keys == {<<c[i][1], c[i][2]>> : i \in 1..Len(c)}
  IN [k \in keys |-> c[CHOOSE i \in 1..Len(c) : <<c[i][1], c[i][2]>> = k][3]]
SeqSet(s) == {s[i] : i \in 1..Len(s)}
\* the structural and cache predicates on a logged state; the cache is only interpreted on a
\* well-indexed array (Partition is partial otherwise; ValidTree has already failed then)
StateChecks(g, ns, rk) ==
  Check1(ValidTree(g, ns), "ValidTree")
  \o (IF WellIndexed(ns) THEN Check1(CacheCoherent(g, ns, rk), "CacheCoherent") ELSE <<>>)

Step(e) ==
  CASE e.k = "begin" ->
         LET g == GraphOf(e)
             rk == CacheOf(e.cache)
         IN /\ gr' = g /\ nodes' = e.nodes /\ ranks' = rk /\ live' = (e.res = "ok")
            /\ viol' = IF e.res # "ok" THEN Append(viol, <<l, "NoPanic">>) ELSE StateChecks(g, e.nodes, rk) \o viol
            /\ drift' = IF e.res = "ok" /\ ~(SeqSet(e.leaves) = RTLeaves(e.nodes) /\ SeqSet(e.interior) = RTInts(e.nodes)
                                             /\ Len(e.leaves) + Len(e.interior) = Len(e.nodes))
                        THEN Append(drift, <<l, "IndexLists">>)
                        ELSE IF e.res = "ok" /\ e.how = "api_hand" /\ ~(e.idx_ok /\ e.nodes = CaterpillarPerm(e.perm))
                        THEN Append(drift, <<l, "HandBuilt">>) ELSE drift
            /\ stats' = [stats EXCEPT !.groups = @ + 1, !.panics = @ + (IF e.res = "ok" THEN 0 ELSE 1),
                                      !.hand_built = @ + (IF e.how = "api_hand" THEN 1 ELSE 0),
                                      !.hash_groups = @ + (IF Has(e, "be") /\ e.be = "hash" THEN 1 ELSE 0)]
    [] e.k = "move" ->
         IF e.res = "timeout" THEN
            /\ viol' = Append(viol, <<l, "NoHang">>) /\ live' = FALSE
            /\ UNCHANGED <<gr, nodes, ranks, drift, stats>>
         ELSE
         LET rk == CacheOf(e.cache) IN
         /\ nodes' = e.nodes /\ ranks' = rk /\ UNCHANGED gr
         /\ IF e.res = "panic" THEN
               /\ viol' = Append(viol, <<l, "NoPanic">>) /\ live' = FALSE /\ UNCHANGED drift
               /\ stats' = [stats EXCEPT !.moves = @ + 1, !.panics = @ + 1]
            ELSE
               /\ viol' = StateChecks(gr, e.nodes, rk) \o viol
               /\ live' = live
               /\ drift' = (IF live /\ ValidTree(gr, nodes)
                               /\ [nodes |-> e.nodes, ranks |-> rk, panic |-> FALSE] \notin MoveResults(e.kind, nodes, ranks)
                            THEN <<<<l, "MoveRefines", e.kind>>>> ELSE <<>>)
                           \o (IF e.valid # ValidTree(gr, e.nodes) THEN <<<<l, "IsValidForGraph">>>> ELSE <<>>)
                           \o drift
               /\ stats' = [stats EXCEPT !.moves = @ + 1, !.nontrivial = @ + (IF e.nodes # nodes THEN 1 ELSE 0)]
    [] e.k = "width" ->
         IF e.res # "ok" THEN
            /\ viol' = Append(viol, <<l, IF e.res = "panic" THEN "NoPanic" ELSE "NoHang">>) /\ live' = FALSE
            /\ stats' = [stats EXCEPT !.panics = @ + 1]
            /\ UNCHANGED <<gr, nodes, ranks, drift>>
         ELSE
         \* e.nodes = the tree the answers are about (logged so that the event can be replayed on its own)
         LET rk == CacheOf(e.cache)
             wi == WellIndexed(e.nodes)
         IN /\ nodes' = e.nodes /\ ranks' = rk /\ UNCHANGED <<gr, live>>
            /\ viol' = (IF wi THEN Check1(/\ e.rankwidth = TrueWidth(gr, e.nodes) /\ e.score = TrueScore(gr, e.nodes)
                                          /\ e.fresh_rankwidth = e.rankwidth /\ e.fresh_score = e.score, "WidthOK")
                                   \o Check1(CacheCoherent(gr, e.nodes, rk), "CacheCoherent")
                        ELSE <<>>) \o viol
            /\ drift' = (IF live /\ e.nodes # nodes THEN <<<<l, "QueryKeepsTree">>>> ELSE <<>>)
                        \o (IF live /\ wi /\ rk # ComputeRanks(gr, e.nodes, ranks) THEN <<<<l, "ComputeRefines">>>> ELSE <<>>)
                        \o drift
            /\ stats' = [stats EXCEPT !.widths = @ + 1, !.nontrivial = @ + (IF rk # ranks THEN 1 ELSE 0)]
    \* an event with rerun = TRUE is the SECOND run() of the same annealer object (after set_iterations): same starting tree, same predicates
    [] e.k = "anneal" ->
         IF e.res # "ok" THEN
            /\ viol' = Append(viol, <<l, IF e.res = "panic" THEN "NoPanic" ELSE "NoHang">>) /\ live' = FALSE
            /\ stats' = [stats EXCEPT !.anneals = @ + 1, !.panics = @ + 1]
            /\ UNCHANGED <<gr, nodes, ranks, drift>>
         ELSE
         \* e.init_nodes = the annealer's starting tree (= the current tree; logged for replay)
         LET rk == CacheOf(e.cache)
             wi == WellIndexed(e.nodes) /\ WellIndexed(e.init_nodes)
         IN /\ nodes' = e.nodes /\ ranks' = rk /\ UNCHANGED <<gr, live>>
            /\ viol' = Check1(ValidTree(gr, e.nodes), "AnnealValid")
                       \o (IF wi THEN Check1(TrueWidth(gr, e.nodes) <= TrueWidth(gr, e.init_nodes), "AnnealNoWorse")
                                      \o Check1(CacheCoherent(gr, e.nodes, rk), "CacheCoherent")
                                      \o Check1(/\ e.final_width = TrueWidth(gr, e.nodes) /\ e.final_score = TrueScore(gr, e.nodes)
                                                /\ e.init_width = TrueWidth(gr, e.init_nodes), "WidthOK")
                           ELSE <<>>)
                       \o viol
            /\ drift' = (IF live /\ e.params.ctor # "set_init_decomp" /\ ~(Has(e, "rerun") /\ e.rerun) /\ e.init_nodes # nodes THEN <<<<l, "AnnealStartsFromTree">>>> ELSE <<>>)
                        \o (IF e.valid # ValidTree(gr, e.nodes) THEN <<<<l, "IsValidForGraph">>>> ELSE <<>>)
                        \o (IF Has(e, "get") /\ ~(e.init_readback_same /\ e.get = [f \in DOMAIN e.get |-> e.params[f]])
                            THEN <<<<l, "ParamReadback">>>> ELSE <<>>)
                        \o drift
            /\ stats' = [stats EXCEPT !.anneals = @ + 1, !.nontrivial = @ + (IF e.params.iters > 0 THEN 1 ELSE 0),
                                      !.set_init = @ + (IF e.params.ctor = "set_init_decomp" THEN 1 ELSE 0)]
    [] e.k \in {"swapd", "moved", "setrank", "compute", "query", "sort", "rank_decomp"} ->
         IF e.res # "ok" THEN
            /\ viol' = Append(viol, <<l, IF e.res = "panic" THEN "NoPanic" ELSE "NoHang", e.k>>) /\ live' = FALSE
            /\ stats' = [stats EXCEPT !.direct = @ + 1, !.panics = @ + 1]
            /\ UNCHANGED <<gr, nodes, ranks, drift>>
         ELSE
         LET rk == CacheOf(e.cache)
             wi == WellIndexed(e.nodes)
             \* the state before the call, carried by the event (swapd, moved, sort: `pre`; cache: `pre_cache`)
             pre == IF Has(e, "pre") THEN e.pre ELSE nodes
             prk == IF Has(e, "pre_cache") THEN CacheOf(e.pre_cache) ELSE ranks
             preOK == ValidTree(gr, pre)
             argsOK == CASE e.k = "swapd" -> preOK /\ SwapArgsValid(pre, e.args[1], e.args[2], e.args[3], e.args[4])
                         [] e.k = "moved" -> preOK /\ MoveArgsValid(pre, e.path)
                         [] OTHER -> TRUE
             specific ==
               CASE e.k = "swapd" -> Check1(IsTreePath(pre, e.path, e.args[2], e.args[4]), "PathIsTreePath")
                 [] e.k = "moved" -> <<>>
                 [] e.k = "setrank" ->
                      Check1(IF e.variant = "set" THEN e.got = <<e.val, e.val>> ELSE e.got = <<-1, -1>>, "RankKeyOrder")
                 [] e.k = "compute" ->
                      IF wi THEN Check1(Width(rk) = TrueWidth(gr, e.nodes) /\ Score(rk) = TrueScore(gr, e.nodes), "ComputeFills") ELSE <<>>
                 [] e.k = "query" ->
                      IF ~ValidTree(gr, e.nodes) THEN <<>>
                      ELSE Check1(\A i \in 1..Len(e.parts) : PartitionOK(e.nodes, e.parts[i].e, e.parts[i].p1, e.parts[i].p2), "PartitionOK")
                           \o Check1(\A i \in 1..Len(e.paths) : IsTreePath(e.nodes, e.paths[i].p, e.paths[i].a, e.paths[i].b), "PathIsTreePath")
                           \o Check1(EdgesOK(e.nodes, e.edges, e.num_edges) /\ Len(e.parts) = 2 * Len(e.edges), "EdgesOK")
                 [] e.k = "sort" -> Check1(SortKeepsTree(pre, e.nodes), "SortKeepsTree")
                 [] e.k = "rank_decomp" ->
                      IF wi THEN Check1(e.width = TrueWidth(gr, e.nodes) /\ e.score = TrueScore(gr, e.nodes), "WidthOK") ELSE <<>>
             refines ==
               CASE e.k = "swapd" -> Check1([nodes |-> e.nodes, ranks |-> rk, panic |-> FALSE]
                                             = SwapDirect(pre, prk, e.args[1], e.args[2], e.args[3], e.args[4]), "SwapRefines")
                 [] e.k = "moved" -> Check1([nodes |-> e.nodes, ranks |-> rk, panic |-> FALSE]
                                             = MoveDirect(pre, prk, e.path, e.clear = "selective") /\ e.path = Path(pre, e.path[1], e.path[Len(e.path)]), "MoveRefines")
                 [] e.k = "setrank" -> Check1(rk = IF e.variant = "set" THEN (RTNorm(e.edge[1], e.edge[2]) :> e.val) @@ prk
                                                   ELSE ClearRank(prk, e.edge[1], e.edge[2]), "SetRankRefines")
                 [] e.k = "compute" -> IF wi THEN Check1(rk = ComputeRanks(gr, e.nodes, prk), "ComputeRefines") ELSE <<>>
                 [] e.k = "sort" -> Check1(e.nodes = SortNhds(pre), "SortRefines")
                 [] e.k = "rank_decomp" -> Check1(e.valid = ValidTree(gr, e.nodes), "IsValidForGraph")
                 [] OTHER -> <<>>
         IN /\ nodes' = e.nodes /\ ranks' = rk /\ UNCHANGED <<gr, live>>
            /\ viol' = (IF argsOK THEN (IF e.k = "rank_decomp" THEN Check1(ValidTree(gr, e.nodes), "AnnealValid")
                                                                   \o (IF wi THEN Check1(CacheCoherent(gr, e.nodes, rk), "CacheCoherent") ELSE <<>>)
                                        ELSE StateChecks(gr, e.nodes, rk)) \o specific
                        ELSE <<>>) \o viol
            /\ drift' = (IF argsOK /\ (e.k \notin {"swapd", "moved"} \/ preOK) THEN refines ELSE <<>>)
                        \o (IF Has(e, "valid") /\ e.k # "rank_decomp" /\ e.valid # ValidTree(gr, e.nodes) THEN <<<<l, "IsValidForGraph">>>> ELSE <<>>)
                        \o drift
            /\ stats' = [stats EXCEPT !.direct = @ + 1, !.bad_args = @ + (IF argsOK THEN 0 ELSE 1),
                                      !.queries = @ + (IF e.k = "query" THEN Len(e.parts) + Len(e.paths) + 1 ELSE 0),
                                      !.rank_decomp = @ + (IF e.k = "rank_decomp" THEN 1 ELSE 0),
                                      !.nontrivial = @ + (IF e.nodes # pre \/ rk # prk THEN 1 ELSE 0)]
Next == \/ /\ l <= NLines /\ Step(Rec[l]) /\ l' = l + 1
        \/ /\ l = NLines + 1 /\ Report(l, viol, drift, stats) /\ l' = l + 1
           /\ UNCHANGED <<gr, nodes, ranks, live, viol, drift, stats>>
=============================================================================
