--------------------------- MODULE Trace_RankTree ---------------------------
(* C18: executions of quizx::rankwidth validated against spec/RankTree.tla.
   begin  : graph (n, adj), the node array of random_decomp / of the annealer's initial tree, cache
   move   : one call of swap_random_leaves / random_local_swap / move_random_subtree; FULL node array
            and FULL cache after the call
   width  : rankwidth() and rankwidth_score() (and the same on a copy with an emptied cache); tree, cache after
   anneal : RankwidthAnnealer::run from the current tree (init_nodes); the returned tree, its cache, its width
   L2 (violations), all evaluated by TLC on the logged values with the spec's definitions:
     NoPanic / NoHang   no call panics (or fails to return within the harness watchdog)
     ValidTree          every logged array is a cubic tree whose leaves biject with the vertices
     CacheCoherent      every logged cache entry sits on a current tree edge and equals CutRank of
                        that edge's current partition (a move that forgets to clear is caught HERE,
                        at the move, before any width query observes it)
     WidthOK            reported rankwidth / score = max / sum of squares of the cut ranks recomputed
                        from scratch by the spec (F2 elimination RTRank) = the code's own recomputation
     AnnealValid, AnnealNoWorse   result valid, TrueWidth(result) <= TrueWidth(start)
   L1 (drift only): the logged post-state is one of the results of the transcribed move for some
   choice of its random arguments; the cache after a width query is ComputeRanks of the one before;
   is_valid_for_graph agrees with ValidTree; the index lists leaves/interior agree with the array. *)
EXTENDS TraceLib, RankTree
VARIABLES l, gr, nodes, ranks, live, viol, drift, stats
vars == <<l, gr, nodes, ranks, live, viol, drift, stats>>
Init == l = 1 /\ gr = [n |-> 0, adj |-> {}] /\ nodes = <<>> /\ ranks = <<>> /\ live = FALSE
        /\ viol = <<>> /\ drift = <<>>
        /\ stats = [groups |-> 0, moves |-> 0, widths |-> 0, anneals |-> 0, panics |-> 0, nontrivial |-> 0]
Check1(okk, name) == IF okk THEN <<>> ELSE <<<<l, name>>>>
GraphOf(e) == [n |-> e.n, adj |-> {<<e.adj[i][1], e.adj[i][2]>> : i \in 1..Len(e.adj)}]
CacheOf(c) ==
  LET keys == {<<c[i][1], c[i][2]>> : i \in 1..Len(c)}
  IN [k \in keys |-> c[CHOOSE i \in 1..Len(c) : <<c[i][1], c[i][2]>> = k][3]]
SeqSet(s) == {s[i] : i \in 1..Len(s)}
\* the structural and cache predicates on a logged state; the cache is only interpreted on a
\* well-indexed array (Partition is partial otherwise; ValidTree has already failed then)
StateChecks(g, ns, rk) ==
  Check1(ValidTree(g, ns), "ValidTree")
  \o (IF WellIndexed(ns) THEN Check1(CacheCoherent(g, ns, rk), "CacheCoherent") ELSE <<>>)

Step(e) ==
  CASE e.k = "begin" ->
         LET g == GraphOf(e)
             rk == CacheOf(e.cache)
         IN /\ gr' = g /\ nodes' = e.nodes /\ ranks' = rk /\ live' = (e.res = "ok")
            /\ viol' = IF e.res # "ok" THEN Append(viol, <<l, "NoPanic">>) ELSE StateChecks(g, e.nodes, rk) \o viol
            /\ drift' = IF e.res = "ok" /\ ~(SeqSet(e.leaves) = RTLeaves(e.nodes) /\ SeqSet(e.interior) = RTInts(e.nodes)
                                             /\ Len(e.leaves) + Len(e.interior) = Len(e.nodes))
                        THEN Append(drift, <<l, "IndexLists">>) ELSE drift
            /\ stats' = [stats EXCEPT !.groups = @ + 1, !.panics = @ + (IF e.res = "ok" THEN 0 ELSE 1)]
    [] e.k = "move" ->
         IF e.res = "timeout" THEN
            /\ viol' = Append(viol, <<l, "NoHang">>) /\ live' = FALSE
            /\ UNCHANGED <<gr, nodes, ranks, drift, stats>>
         ELSE
         LET rk == CacheOf(e.cache) IN
         /\ nodes' = e.nodes /\ ranks' = rk /\ UNCHANGED gr
         /\ IF e.res = "panic" THEN
               /\ viol' = Append(viol, <<l, "NoPanic">>) /\ live' = FALSE /\ UNCHANGED drift
               /\ stats' = [stats EXCEPT !.moves = @ + 1, !.panics = @ + 1]
            ELSE
               /\ viol' = StateChecks(gr, e.nodes, rk) \o viol
               /\ live' = live
               /\ drift' = (IF live /\ ValidTree(gr, nodes)
                               /\ [nodes |-> e.nodes, ranks |-> rk, panic |-> FALSE] \notin MoveResults(e.kind, nodes, ranks)
                            THEN <<<<l, "MoveRefines", e.kind>>>> ELSE <<>>)
                           \o (IF e.valid # ValidTree(gr, e.nodes) THEN <<<<l, "IsValidForGraph">>>> ELSE <<>>)
                           \o drift
               /\ stats' = [stats EXCEPT !.moves = @ + 1, !.nontrivial = @ + (IF e.nodes # nodes THEN 1 ELSE 0)]
    [] e.k = "width" ->
         IF e.res # "ok" THEN
            /\ viol' = Append(viol, <<l, IF e.res = "panic" THEN "NoPanic" ELSE "NoHang">>) /\ live' = FALSE
            /\ stats' = [stats EXCEPT !.panics = @ + 1]
            /\ UNCHANGED <<gr, nodes, ranks, drift>>
         ELSE
         \* e.nodes = the tree the answers are about (logged so that the event can be replayed on its own)
         LET rk == CacheOf(e.cache)
             wi == WellIndexed(e.nodes)
         IN /\ nodes' = e.nodes /\ ranks' = rk /\ UNCHANGED <<gr, live>>
            /\ viol' = (IF wi THEN Check1(/\ e.rankwidth = TrueWidth(gr, e.nodes) /\ e.score = TrueScore(gr, e.nodes)
                                          /\ e.fresh_rankwidth = e.rankwidth /\ e.fresh_score = e.score, "WidthOK")
                                   \o Check1(CacheCoherent(gr, e.nodes, rk), "CacheCoherent")
                        ELSE <<>>) \o viol
            /\ drift' = (IF live /\ e.nodes # nodes THEN <<<<l, "QueryKeepsTree">>>> ELSE <<>>)
                        \o (IF live /\ wi /\ rk # ComputeRanks(gr, e.nodes, ranks) THEN <<<<l, "ComputeRefines">>>> ELSE <<>>)
                        \o drift
            /\ stats' = [stats EXCEPT !.widths = @ + 1, !.nontrivial = @ + (IF rk # ranks THEN 1 ELSE 0)]
    [] e.k = "anneal" ->
         IF e.res # "ok" THEN
            /\ viol' = Append(viol, <<l, IF e.res = "panic" THEN "NoPanic" ELSE "NoHang">>) /\ live' = FALSE
            /\ stats' = [stats EXCEPT !.anneals = @ + 1, !.panics = @ + 1]
            /\ UNCHANGED <<gr, nodes, ranks, drift>>
         ELSE
         \* e.init_nodes = the annealer's starting tree (= the current tree; logged for replay)
         LET rk == CacheOf(e.cache)
             wi == WellIndexed(e.nodes) /\ WellIndexed(e.init_nodes)
         IN /\ nodes' = e.nodes /\ ranks' = rk /\ UNCHANGED <<gr, live>>
            /\ viol' = Check1(ValidTree(gr, e.nodes), "AnnealValid")
                       \o (IF wi THEN Check1(TrueWidth(gr, e.nodes) <= TrueWidth(gr, e.init_nodes), "AnnealNoWorse")
                                      \o Check1(CacheCoherent(gr, e.nodes, rk), "CacheCoherent")
                                      \o Check1(/\ e.final_width = TrueWidth(gr, e.nodes) /\ e.final_score = TrueScore(gr, e.nodes)
                                                /\ e.init_width = TrueWidth(gr, e.init_nodes), "WidthOK")
                           ELSE <<>>)
                       \o viol
            /\ drift' = (IF live /\ e.init_nodes # nodes THEN <<<<l, "AnnealStartsFromTree">>>> ELSE <<>>)
                        \o (IF e.valid # ValidTree(gr, e.nodes) THEN <<<<l, "IsValidForGraph">>>> ELSE <<>>)
                        \o drift
            /\ stats' = [stats EXCEPT !.anneals = @ + 1, !.nontrivial = @ + (IF e.params.iters > 0 THEN 1 ELSE 0)]
Next == \/ /\ l <= NLines /\ Step(Rec[l]) /\ l' = l + 1
        \/ /\ l = NLines + 1 /\ Report(l, viol, drift, stats) /\ l' = l + 1
           /\ UNCHANGED <<gr, nodes, ranks, live, viol, drift, stats>>
=============================================================================
