------------------------------- MODULE MC_Sem -------------------------------
(* Self-consistency of the oracle: the two evaluators agree on every diagram of the
   family, and textbook identities hold under Den. *)
EXTENDS Family, ZXSem
VARIABLES g, mode
vars == <<g, mode>>
Init == g = EmptyG /\ mode = "b1"
B1 == mode = "b1" /\ g' \in Shapes /\ mode' = "b2"
B2 == mode = "b2" /\ g' \in Wirings(g) /\ mode' = "done"
Next == B1 \/ B2
Agree == mode = "done" => DenB(g) = DenC(g)
\* invariance under colour change of any spider (a semantic identity the evaluators must satisfy)
ColourInv == mode = "done" => \A v \in Spiders(g) : DenB(ColorChange(g, v)) = DenB(g)
WF == mode = "done" => WellFormed(g)
=============================================================================
