------------------------------- MODULE MC_Plug -------------------------------
(* C11 on the specification: for every pair of diagrams of the family, the transcribed
   plug / append / adjoint / plug_inputs / plug_outputs / is_identity satisfy the linear-algebra
   statements under the reference denotation. *)
EXTENDS Family, Compose
VARIABLES g, h, mode
vars == <<g, h, mode>>
Init == g = EmptyG /\ h = EmptyG /\ mode = "g1"
Next == \/ mode = "g1" /\ g' \in Shapes /\ mode' = "g2" /\ UNCHANGED h
        \/ mode = "g2" /\ g' \in Wirings(g) /\ mode' = "h1" /\ UNCHANGED h
        \/ mode = "h1" /\ h' \in Shapes /\ mode' = "h2" /\ UNCHANGED g
        \/ mode = "h2" /\ h' \in Wirings(h) /\ Len(h'.ins) = Len(g.outs) /\ mode' = "done" /\ UNCHANGED g
NI(x) == Len(x.ins)
NO(x) == Len(x.outs)
\* single-diagram statements are checked when g is complete
AdjointOK == mode = "h1" => /\ Den(Adjoint(g)) = Dagger(Den(g), NI(g), NO(g))
                            /\ Adjoint(Adjoint(g)) = g
Lists(n) == UNION {[1..k -> Basis] : k \in 0..n}
PlugInOK == mode = "h1" => \A bs \in Lists(NI(g)) : Den(PlugInputs(g, bs)) = ApplyInputs(Den(g), NI(g), NO(g), bs)
PlugOutOK == mode = "h1" => \A bs \in Lists(NO(g)) : Den(PlugOutputs(g, bs)) = ApplyOutputs(Den(g), NI(g), NO(g), bs)
IdentityOK == mode = "h1" => /\ IsIdentityCode(g) = IsIdentitySpec(g)
                             /\ IsIdentitySpec(g) => (g.sc = ROne => Den(g) = IdTensor(NI(g)))
XToZOK == mode = "h1" => Den(XToZ(g)) = Den(g)
\* pair statements
PlugOK == mode = "done" => LET r == Plug(g, h) IN
            /\ ~r.panic
            /\ Den(r.g) = Compose(Den(g), NI(g), NO(g), Den(h), NO(h))
            /\ WellFormed(r.g)
AppendOK == mode = "done" => Den(Juxtapose(g, h)) = TensorProd(Den(g), NI(g), NO(g), Den(h), NI(h), NO(h))
=============================================================================
