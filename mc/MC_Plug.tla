------------------------------- MODULE MC_Plug -------------------------------
(* C11 on the specification: for every pair of diagrams of the family, the transcribed
   plug / append / adjoint / plug_inputs / plug_outputs / is_identity satisfy the linear-algebra
   statements under the reference denotation. *)
EXTENDS Family, Compose
VARIABLES g, h, mode
vars == <<g, h, mode>>
Init == g = EmptyG /\ h = EmptyG /\ mode = "g1"
Next == \/ mode = "g1" /\ g' \in Shapes /\ mode' = "g2" /\ UNCHANGED h
        \/ mode = "g2" /\ g' \in Wirings(g) /\ mode' = "h1" /\ UNCHANGED h
        \/ mode = "h1" /\ h' \in Shapes /\ mode' = "h2" /\ UNCHANGED g
        \/ mode = "h2" /\ h' \in Wirings(h) /\ Len(h'.ins) = Len(g.outs) /\ mode' = "done" /\ UNCHANGED g
NI(x) == Len(x.ins)
NO(x) == Len(x.outs)
\* single-diagram statements are checked when g is complete
AdjointOK == mode = "h1" => /\ Den(Adjoint(g)) = Dagger(Den(g), NI(g), NO(g))
                            /\ Adjoint(Adjoint(g)) = g
Lists(n) == UNION {[1..k -> Basis] : k \in 0..n}
PlugInOK == mode = "h1" => \A bs \in Lists(NI(g)) : Den(PlugInputs(g, bs)) = ApplyInputs(Den(g), NI(g), NO(g), bs)
PlugOutOK == mode = "h1" => \A bs \in Lists(NO(g)) : Den(PlugOutputs(g, bs)) = ApplyOutputs(Den(g), NI(g), NO(g), bs)
IdentityOK == mode = "h1" => /\ IsIdentityCode(g) = IsIdentitySpec(g)
                             /\ IsIdentitySpec(g) => (g.sc = ROne => Den(g) = IdTensor(NI(g)))
XToZOK == mode = "h1" => Den(XToZ(g)) = Den(g)
\* additions (API-coverage gaps #2, #20): the specification-level statements behind Trace_Compose's copy / subg / basis events
\* every union S of connected components: the restriction to S and to the rest are the two tensor factors of g
SubgraphOK == mode = "h1" => \A S \in SUBSET g.vs : SubgraphSpecOK(g, S)
\* the documented copy is the diagram / its adjoint; what the code copies (CopyCode) differs from it as soon as g has a boundary or a scalar
CopyOK == mode = "h1" => /\ Den(CopySpec(g, TRUE)) = Dagger(Den(g), NI(g), NO(g)) /\ CopySpec(g, FALSE) = g
                         /\ (g.ins = <<>> /\ g.outs = <<>> /\ g.sc = ROne => CopyCode(g, FALSE) = g /\ CopyCode(g, TRUE) = Adjoint(g))
FlipSpecOK == mode = "g1" => \A b \in Basis : FlipOK(b, BFlip(b)) /\ (\A f \in Basis : FlipOK(b, f) => f = BFlip(b))
\* plug_vertex without normalisation: sqrt2 times the normalised basis element
PlugVertexOK == mode = "h1" => \A i \in 1..NI(g) : \A b \in Basis \ {"SKIP"} :
                  Den([PlugVertex(g, g.ins[i], b) EXCEPT !.ins = SubSeq(g.ins, 1, i - 1) \o SubSeq(g.ins, i + 1, NI(g))])
                    = TScale(ApplyInputs(Den(g), NI(g), NO(g), [k \in 1..i |-> IF k = i THEN b ELSE "SKIP"]), Sqrt2Pow(1))
\* pair statements
PlugOK == mode = "done" => LET r == Plug(g, h) IN
            /\ ~r.panic
            /\ Den(r.g) = Compose(Den(g), NI(g), NO(g), Den(h), NO(h))
            /\ WellFormed(r.g)
AppendOK == mode = "done" => Den(Juxtapose(g, h)) = TensorProd(Den(g), NI(g), NO(g), Den(h), NI(h), NO(h))
=============================================================================
