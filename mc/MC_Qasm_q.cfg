CONSTANTS NQ = 3
MAXLEN = 2
ONEQ = {"NOT", "Z", "S", "T", "Sdg", "Tdg", "HAD", "InitAncilla", "PostSelect"}
TWOQ = {"CNOT", "CZ", "SWAP", "XCX"}
THREEQ = {"TOFF", "CCZ"}
PHS <- PHS_q
OUTQ = {"ParityPhase", "MeasureReset", "Measure"}
SIZES = {1, 2}
MAXREGS = 3
MAXST = 2
GN1 = {"h", "post_sel"}
GN2 = {"cx", "swap"}
GN3 = {}
PARS <- PARS_q
UNDEF = {"pp", "measure_r", "y", "UNKNOWN"}
INIT Init
NEXT Next
INVARIANT RoundTripInv
INVARIANT DomainCovered
INVARIANT OutsideInv
INVARIANT PrintShape
INVARIANT NameTableInverse
INVARIANT OffsetsInOrder
INVARIANT ErrAbsorbing
INVARIANT NothingDropped
INVARIANT UnsupportedIsErr
INVARIANT SupportedIsOk
INVARIANT Reprint
CHECK_DEADLOCK FALSE
