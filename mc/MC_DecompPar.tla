---------------------------- MODULE MC_DecompPar ----------------------------
EXTENDS DecompPar
\* a 3-term step one of whose terms splits into two components, one of which decomposes again (2 terms)
N1 == 1..8
K1 == [n \in N1 |-> CASE n = 1 -> <<2, 3, 4>> [] n = 3 -> <<5, 6>> [] n = 6 -> <<7, 8>> [] OTHER -> <<>>]
T1 == [n \in N1 |-> IF n = 3 THEN "prod" ELSE "sum"]
L1 == [n \in N1 |-> ((n * 7) % 5) - 2]
\* a deeper binary tree of sym-2 steps
N2 == 1..7
K2 == [n \in N2 |-> IF n <= 3 THEN <<2 * n, 2 * n + 1>> ELSE <<>>]
T2 == [n \in N2 |-> IF n \in {2, 5} THEN "prod" ELSE "sum"]
L2 == [n \in N2 |-> (n % 4) - 1]
=============================================================================
