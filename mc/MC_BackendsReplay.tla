-------------------------- MODULE MC_BackendsReplay --------------------------
(* Specification -> implementation.  The same machine as MC_Backends with a history variable: for every
   distinct reachable state (vm, hm, am) TLC prints ONE history of operations that reaches it, together with
   what Backends.tla predicts the two real backends show afterwards (exact vertex NAMES per tag, table length /
   fresh counter, cached counts, boundary lists).  `qxv record backends --from-tlc` executes every history on
   the real vec_graph::Graph and hash_graph::Graph from the empty graph, compares the prediction, and logs the
   run in the format Trace_Backends validates.  `hist` is hidden by the VIEW, so the state space is that of
   MC_Backends (one witness history per state, not every path). *)
EXTENDS MC_Backends, Json
VARIABLE hist
varsR == <<vm, hm, am, nt, nops, ok, hist>>
ViewR == vars
InitR == Init /\ hist = <<>>
H(op) == hist' = Append(hist, op)
NextR ==
  \/ \E ty \in {"Z", "B"} : OpAddP(ty) /\ H([op |-> "add_vertex", ty |-> ty, tag |-> nt])
  \/ \E n \in 0..MAXNAME : OpAddNamedP(n) /\ H([op |-> "add_named", name |-> n, tag |-> nt])
  \/ \E t \in Removable : OpRemoveP(t) /\ H([op |-> "remove_vertex", t |-> t])
  \/ \E s, t \in Tags : \E ety \in {"N", "H"} : OpAddEdgeP(s, t, ety) /\ H([op |-> "add_edge", s |-> s, t |-> t, et |-> ety])
  \/ \E e \in DOMAIN am.et : OpRemoveEdgeP(e) /\ H([op |-> "remove_edge", s |-> Min(e), t |-> Max(e)])
  \/ \E e \in DOMAIN am.et : OpSetETypeP(e) /\ H([op |-> "set_edge_type", s |-> Max(e), t |-> Min(e), et |-> Flip(e)])
  \/ \E i, o \in Tags : OpSetBoundaryP(i, o) /\ H([op |-> "set_boundary", i |-> i, o |-> o])
  \/ \E force \in BOOLEAN : OpPackP(force) /\ H([op |-> "pack", force |-> force])
\* what the public interface of each real backend must show: [tag, name] pairs, vindex(), num_vertices(), num_edges(), inputs(), outputs()
SeqOfSet(S) == SetToSortSeq(S, <)
PredV == [names |-> [k \in 1..Cardinality(VNames(vm)) |-> LET v == SeqOfSet(VNames(vm))[k] IN <<VTag(vm, v), v>>],
          vindex |-> VIndex(vm), numv |-> vm.numv, nume |-> vm.nume, ins |-> vm.ins, outs |-> vm.outs]
PredH == [names |-> [k \in 1..Cardinality(HNames(hm)) |-> LET v == SeqOfSet(HNames(hm))[k] IN <<HTag(hm, v), v>>],
          vindex |-> HIndex(hm), numv |-> hm.numv, nume |-> hm.nume, ins |-> hm.ins, outs |-> hm.outs]
PredE == SetToSeq({<<Min(x), Max(x), am.et[x]>> : x \in DOMAIN am.et})
\* evaluated once per distinct state (TLC checks invariants on states with a new view): one line per state
Emit == hist = <<>> \/ PrintT(<<"REPLAY", ToJson([hist |-> hist, v |-> PredV, h |-> PredH, e |-> PredE])>>)
=============================================================================
