CONSTANTS MAXOPS = 6
MAXTAG = 3
MAXNAME = 4
INIT Init
NEXT Next
INVARIANT VInv
INVARIANT HInv
INVARIANT Refines
INVARIANT Counts
INVARIANT SameOutcome
CHECK_DEADLOCK FALSE
