CONSTANTS NQ = 2
MAXLEN = 3
ONEQ = {"S", "T", "NOT", "HAD"}
TWOQ = {"CNOT", "CZ", "XCX", "SWAP"}
SPECIAL = {"InitAncilla", "PostSelect", "Measure", "MeasureReset"}
PHS = {3}
THREEQ = {}
PPQ <- PPQ_pairs2
POSTSEL = FALSE
INIT Init
NEXT Next
INVARIANT Emit
CHECK_DEADLOCK FALSE
