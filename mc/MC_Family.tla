------------------------------ MODULE MC_Family ------------------------------
(* Binding of the INPUT families.  Every exhaustive config builds its diagrams with Family!Shapes /
   Family!Wirings, and every `fam` trace of the harness enumerates "the same" family with
   gens::enum_family.  This module makes that a checked fact instead of an assumption: TLC prints every
   member of the family (one line per distinct diagram, the JSON shape abs() of the harness), the
   harness prints its enumeration (`qxv record family --fam ...`), and bin/vlib.py family_agreement
   requires the two SETS to be equal.  So every diagram TLC explores on the specification is a diagram
   the real code is run on, and conversely. *)
EXTENDS Family, Json, TLC
VARIABLES g, mode
vars == <<g, mode>>
Init == g = EmptyG /\ mode = "b1"
B1 == mode = "b1" /\ g' \in Shapes /\ mode' = "b2"
B2 == mode = "b2" /\ g' \in Wirings(g) /\ mode' = "done"
Next == B1 \/ B2
Emit == mode # "done" \/ PrintT(<<"REPLAY", ToJson(ToAbs(g))>>)
=============================================================================
