----------------------------- MODULE MC_ToGraph -----------------------------
(* C02 on the specification: for every circuit over the alphabet (built gate by gate, so every
   prefix is a state) the transcribed translation ToGraph denotes exactly the circuit's map
   CircSem, for every measurement outcome; outputs in qubit order; both CCZ constructions. *)
EXTENDS ToGraph
CONSTANTS NQ, MAXLEN, ONEQ, TWOQ, SPECIAL, PHS, THREEQ, PPQ, POSTSEL
VARIABLES c
Qs == 0..(NQ - 1)
Pairs2 == {p \in Qs \X Qs : p[1] # p[2]}
Triples == {p \in Qs \X Qs \X Qs : p[1] # p[2] /\ p[1] # p[3] /\ p[2] # p[3]}
G(t, qs, ph) == [t |-> t, qs |-> qs, ph |-> ph, vars |-> PZero]
Alphabet ==
  {G(t, <<q>>, 0) : t \in ONEQ, q \in Qs}
  \cup {G(t, <<q>>, ph) : t \in {"ZPhase", "XPhase"} \cap {x \in {"ZPhase", "XPhase"} : PHS # {}}, q \in Qs, ph \in PHS}
  \cup {G(t, <<p[1], p[2]>>, 0) : t \in TWOQ, p \in Pairs2}
  \cup {G(t, <<q>>, 0) : t \in SPECIAL, q \in Qs}
  \cup {G(t, <<p[1], p[2], p[3]>>, 0) : t \in THREEQ, p \in Triples}
  \cup {G("ParityPhase", qs, ph) : qs \in PPQ, ph \in PHS}
\* ancilla initialisation only as a qubit's first operation, nothing after a qubit was removed
Touched(gs) == UNION {ToSet(gs[i].qs) : i \in 1..Len(gs)}
Removed(gs) == {gs[i].qs[1] : i \in {i \in 1..Len(gs) : gs[i].t \in {"PostSelect", "Measure"}}}
Admissible(gs, g) == /\ (g.t = "InitAncilla" => g.qs[1] \notin Touched(gs))
                     /\ ToSet(g.qs) \cap Removed(gs) = {}
Init == c = [n |-> NQ, gates |-> <<>>]
Next == /\ Len(c.gates) < MAXLEN
        /\ \E g \in Alphabet : Admissible(c.gates, g) /\ c' = [c EXCEPT !.gates = Append(@, g)]
VS == LET r == Resolved(c) IN CircVars(r)
Translated ==
  LET r == Resolved(c)
      vs == CircVars(r)
      g == ToGraph(c, POSTSEL)
  IN \A sig \in [vs -> BOOLEAN] : Den(Inst(g, sig)) = CircSemV(r, sig).T
Arity == LET g == ToGraph(c, POSTSEL)
             s == CircSemV(Resolved(c), [v \in VS |-> FALSE])
         IN Len(g.ins) = Len(s.inq) /\ Len(g.outs) = Len(s.outq) /\ WellFormed(g)
PPQ_none == {}
PPQ_2 == {<<0, 1>>, <<1>>}
PPQ_3 == {<<0, 1, 2>>, <<2, 0>>, <<1>>}
=============================================================================
