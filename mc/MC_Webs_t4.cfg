CONSTANTS K = 4
TYS = {"Z","X"}
PHS = {0}
ETS = {"N"}
NB = 1
VARS = {}
BB = FALSE
MAXE = 6
INIT Init
NEXT Next
INVARIANT BipSound
INVARIANT BipShape
INVARIANT DeclEqFire
INVARIANT FireValid
INVARIANT Closed
INVARIANT DimOK
INVARIANT WebsStabilise
INVARIANT SpiderLemma
INVARIANT MatrixLemma
CHECK_DEADLOCK FALSE
