CONSTANTS K = 2
TYS = {"Z","X"}
PHS = {0,1,4}
ETS = {"N","H"}
NB = 1
VARS = {}
BB = FALSE
SCN = 1
CMS = {"zero"}
MUT = "none"
INIT Init
NEXT Next
INVARIANT NoPanicRT
INVARIANT ForeignTypedH
INVARIANT ForeignParallel
CHECK_DEADLOCK FALSE
