CONSTANTS K = 1
TYS = {"Z","X"}
PHS = {0,4}
ETS = {"N"}
NB = 1
VARS = {}
BB = TRUE
MAXE = 6
INIT Init
NEXT Next
INVARIANT BipSound
CHECK_DEADLOCK FALSE
