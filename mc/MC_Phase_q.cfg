CONSTANTS N = 40
D = 16
N2 = 13
D2 = 6
KM = 12
M = 16
KU = 3
S3 <- S3_q
INIT Init
NEXT Next
INVARIANT NormImplIsNorm
INVARIANT CanonicalRange
INVARIANT NormUnique
INVARIANT EqualModTwo
INVARIANT IdentityLaw
INVARIANT InverseLaw
INVARIANT Classify
INVARIANT ClassInvariant
INVARIANT MulIntIsRepeatedAdd
INVARIANT DivIntCanonical
INVARIANT LimitImplIsDecl
INVARIANT LimitOnPhases
INVARIANT Commutative
INVARIANT SubIsAddNeg
INVARIANT AgreesWithRationals
INVARIANT RingCanonical
INVARIANT Associative
CHECK_DEADLOCK FALSE
