CONSTANTS K = 2
TYS = {"Z","X"}
PHS = {0,1,2,4,7}
ETS = {"N","H"}
NB = 2
VARS = {}
BB = TRUE
INIT Init
NEXT Next
INVARIANT Agree
INVARIANT ColourInv
INVARIANT WF
CHECK_DEADLOCK FALSE
