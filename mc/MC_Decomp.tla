------------------------------ MODULE MC_Decomp ------------------------------
(* C05 on the specification: every decomposition step (as transcribed from decompose.rs) replaces a
   host diagram by terms whose denotations SUM to the host's — for T-like spiders embedded in a host
   (edges among them, an optional output wire, an optional extra Clifford neighbour), every admissible
   argument list, every replacement family (BSS-6, sym-2, single, magic-5, cat-3..6 with pi hub,
   t-pair, spider cutting). *)
EXTENDS Decomp
CONSTANTS K, TPH, SHAPE, NB, HUBPH, EXTRA, CANDMAX, ALLORD
VARIABLES g, d, mode
vars == <<g, d, mode>>
NoD == [kind |-> "none", vs |-> <<>>]
Init == g = EmptyG /\ d = NoD /\ mode = "b1"
TS == 1..K
Hub == K + 1
Xtr == K + 2          \* an extra Clifford spider hanging off spider 2 (exercises the cat pi-normalisation)
Bd == K + 3           \* an output boundary on spider 2 (plain edge)
CandPairs == {e \in SUBSET (1..CANDMAX) : Cardinality(e) = 2}
\* step 1: phases; step 2: edges among the T spiders, hub / extras; step 3: choose a decomposition
B1 == /\ mode = "b1" /\ \E ph \in [TS -> TPH] :
           g' = [EmptyG EXCEPT !.vs = TS, !.ty = [v \in TS |-> "Z"], !.ph = ph, !.vr = [v \in TS |-> PZero]]
      /\ mode' = "b2" /\ UNCHANGED d
WithHub(h, hp) == LET h1 == AddV(h, Hub, "Z", hp) IN [h1 EXCEPT !.et = [e \in {{Hub, v} : v \in TS} |-> "H"] @@ @]
WithExtra(h) == SetET(AddV(h, Xtr, "Z", 2), Xtr, 2, "H")
WithOut(h) == [SetET(AddV(h, Bd, "B", 0), Bd, 2, "N") EXCEPT !.outs = <<Bd>>]
B2 == /\ mode = "b2"
      /\ \E E \in SUBSET CandPairs : \E hp \in HUBPH : \E x \in (IF EXTRA THEN BOOLEAN ELSE {FALSE}) : \E nb \in 0..NB :
           LET h0 == [g EXCEPT !.et = [e \in E |-> "H"]]
               h1 == IF SHAPE = "cat" THEN WithHub(h0, hp) ELSE h0
               h2 == IF x THEN WithExtra(h1) ELSE h1
               h3 == IF nb = 1 THEN WithOut(h2) ELSE h2
           IN g' = h3
      /\ mode' = "b3" /\ UNCHANGED d
\* argument orders: all injective sequences, or (ALLORD = FALSE) only the rotations of the identity
Seqs(S, n) == IF ALLORD \/ n < K THEN {s \in [1..n -> S] : \A i, j \in 1..n : i # j => s[i] # s[j]}
              ELSE {[i \in 1..n |-> ((i + r - 1) % n) + 1] : r \in 0..(n - 1)}
DChoices ==
  IF SHAPE = "cat" THEN {[kind |-> "CatDecomp", vs |-> <<Hub>> \o s] : s \in Seqs(TS, K)}
  ELSE IF SHAPE = "tpair" THEN {[kind |-> "TPairDecomp", vs |-> s] : s \in {s \in Seqs(TS, K) : TRUE}}
  ELSE {[kind |-> "TDecomp", vs |-> [i \in 1..K |-> i]]}
       \cup {[kind |-> "SpiderCuttingDecomp", vs |-> <<v>>] : v \in TS}
       \cup {[kind |-> "SingleDecomp", vs |-> <<v>>] : v \in TS}
       \cup (IF K >= 2 THEN {[kind |-> "SymDecomp", vs |-> s] : s \in Seqs(TS, 2)} ELSE {})
       \cup (IF K >= 5 THEN {[kind |-> "Magic5FromCat", vs |-> [i \in 1..5 |-> i]]} ELSE {})
       \cup (IF K = 6 THEN {[kind |-> "BssDecomp", vs |-> <<2, 1, 3, 4, 6, 5>>]} ELSE {})
\* the t-pair decomposition presupposes the complete bipartite H pattern left behind by a pivot
TPairOK(h, s) == LET n == Len(s) IN \A i \in 1..(n - 2), j \in (n - 1)..n : ET(h, s[i], s[j]) = "H"
\* spider cutting and the cat hub presuppose H legs to Z spiders (graph-like hosts)
CutOK(h, v) == \A n \in Nbrs(h, v) : h.ty[n] = "Z" /\ ET(h, v, n) = "H"
B3 == /\ mode = "b3" /\ \E c \in DChoices : (c.kind = "TPairDecomp" => TPairOK(g, c.vs))
                                            /\ (c.kind = "SpiderCuttingDecomp" => CutOK(g, c.vs[1])) /\ d' = c
      /\ mode' = "done" /\ UNCHANGED g
Next == B1 \/ B2 \/ B3
StepSumOK == mode = "done" => StepSum(g, ApplyDecomp(g, d))
TermsStabiliser == mode = "done" => \A i \in 1..Len(ApplyDecomp(g, d)) : TCount(ApplyDecomp(g, d)[i]) < TCount(g) \/ d.kind \in {"SpiderCuttingDecomp"}
=============================================================================
