------------------------------ MODULE Trace_Sim ------------------------------
(* C06: validation of recorded runs of the `quizx sim` binary.
   circ   : the circuit; psi = Psi(c) is computed once
   amp    : `-a <bits>` : the exact scalar the decomposer returned (hook) must be the amplitude <b|C|0>
            (so the printed number is |<b|C|0>|^2: printed_ok is the harness's 1e-9 comparison of the printed
            decimal with |scalar|^2), exact and not flagged approximate, for every method / parallel flag
   exp    : `-e <paulis>` : the exact scalar must be <psi|P|psi> (real); printed_ok likewise
   sample : `-s N` : for every draw the exact scalar must be the marginal Marg(prefix o 1); the probability handed
            to the Bernoulli draw must lie in [0,1] and be the CONDITIONAL probability (p_is_conditional is the
            harness's 1e-9 comparison of p with scalar / P(prefix), P(prefix) derived from the validated scalars);
            every printed sample must have non-zero Born probability and equal the bits drawn
   query  : a malformed query must exit non-zero without panicking; a well-formed one must succeed
            kind "file_malformed": an unreadable / syntactically wrong / ill-typed input file must be rejected the same way;
            kind "file_unsupported": legal OpenQASM the front end does not support: no panic (UnsupportedInputNoPanic), the
            exit status is not judged; kind "file_outside": a circuit with a measurement is outside the property's quantifier
            (unitary gate set): counted only.
   Events with a field `variant` come from the rest of the command-line surface (no task flag = one shot, -s 0, the long
   flags, -p N for N in {0,1,3,4}, -o / --out: the answer is then read back from the file) and are judged by the same
   predicates. *)
EXTENDS TraceLib, Sim, FiniteSets, FiniteSetsExt
VARIABLES l, c, psi, viol, drift, stats
vars == <<l, c, psi, viol, drift, stats>>
Init == l = 1 /\ c = [n |-> 0, gates |-> <<>>] /\ psi = <<>> /\ viol = <<>> /\ drift = <<>>
        /\ stats = [circuits |-> 0, amps |-> 0, exps |-> 0, draws |-> 0, samples |-> 0, malformed |-> 0, nontrivial |-> 0,
                    variants |-> 0, default_task |-> 0, zero_shots |-> 0, out_file |-> 0, par_flag |-> 0,
                    file_errors |-> 0, file_unsupported |-> 0, file_unsupported_accepted |-> 0, file_outside |-> 0, file_outside_panics |-> 0,
                    generic_circuits |-> 0, generic_queries |-> 0]
V(ok, name, e) == IF ok THEN <<>> ELSE <<<<l, name>>>>
BitsOf(chars) == LET s == Broadcast(chars, c.n) IN [k \in 1..c.n |-> BitOf(s[k])]
PaulisOf(chars) == LET s == Broadcast(chars, c.n) IN [k \in 1..c.n |-> Upper(s[k])]
Succeeded(e) == e.exit = 0 /\ ~e.panicked /\ e.res = "ok"
B2N(b) == IF b THEN 1 ELSE 0
IsVariant(e, v) == Has(e, "variant") /\ e.variant = v
VarStats(st, e) == [st EXCEPT !.variants = @ + B2N(Has(e, "variant")), !.default_task = @ + B2N(IsVariant(e, "default_task")),
                              !.zero_shots = @ + B2N(IsVariant(e, "zero_shots")), !.out_file = @ + B2N(Has(e, "out") /\ e.out),
                              !.par_flag = @ + B2N(Has(e, "variant") /\ e.par)]
DrawOK(d) == /\ ~d.approx
             /\ ScFromAbs(d.scalar) = N2ToRing(Marg(psi, c.n, Append(d.pre, 1)))
RECURSIVE DrawViol(_, _)
DrawViol(draws, k) ==
  IF k > Len(draws) THEN <<>>
  ELSE LET d == draws[k] IN
       V(DrawOK(d), "MarginalOK", d) \o V(d.p_in_range, "ProbabilityInRange", d) \o V(d.p_is_conditional, "ConditionalOK", d)
       \o DrawViol(draws, k + 1)
RunViol(r) ==
  LET bits == [k \in 1..Len(r.draws) |-> r.draws[k].bit] IN
  DrawViol(r.draws, 1)
  \o V(Len(r.draws) = c.n /\ r.printed = bits /\ (\A k \in 1..Len(r.draws) : r.draws[k].pre = SubSeq(bits, 1, k - 1)), "SampleIsDrawnBits", r)
  \o V(Len(bits) # c.n \/ Prob(psi, bits) # <<0, 0, 0>>, "SampleHasNonZeroProbability", r)
RECURSIVE RunsViol(_, _)
RunsViol(rs, k) == IF k > Len(rs) THEN <<>> ELSE RunViol(rs[k]) \o RunsViol(rs, k + 1)
Step(e) ==
  CASE e.k = "circ" ->
         LET cc == CircFromAbs(e.c) IN c' = cc /\ psi' = Psi(cc) /\ stats' = [stats EXCEPT !.circuits = @ + 1] /\ UNCHANGED <<viol, drift>>
    [] e.k = "amp" ->
         LET valid == StringValid(e.chars, BitChars, c.n) IN
         /\ viol' = (IF ~valid THEN V(e.exit # 0 /\ ~e.panicked, "MalformedRejected", e)
                     ELSE V(Succeeded(e), "QuerySucceeds", e)
                          \o (IF Succeeded(e) THEN V(~e.approx /\ ScFromAbs(e.scalar) = psi[BitsOf(e.chars)], "AmplitudeOK", e)
                                                   \o V(e.printed_ok, "PrintedProbabilityOK", e) ELSE <<>>)) \o viol
         /\ stats' = VarStats([stats EXCEPT !.amps = @ + 1, !.nontrivial = @ + 1], e) /\ UNCHANGED <<c, psi, drift>>
    [] e.k = "exp" ->
         LET valid == StringValid(e.chars, PauliChars, c.n) IN
         /\ viol' = (IF ~valid THEN V(e.exit # 0 /\ ~e.panicked, "MalformedRejected", e)
                     ELSE V(Succeeded(e), "QuerySucceeds", e)
                          \o (IF Succeeded(e) THEN V(~e.approx /\ ScFromAbs(e.scalar) = Expect(psi, c.n, PaulisOf(e.chars)), "ExpectationOK", e)
                                                   \o V(e.printed_ok, "PrintedExpectationOK", e) ELSE <<>>)) \o viol
         /\ stats' = VarStats([stats EXCEPT !.exps = @ + 1, !.nontrivial = @ + 1], e) /\ UNCHANGED <<c, psi, drift>>
    [] e.k = "sample" ->
         /\ viol' = V(Succeeded(e), "QuerySucceeds", e) \o (IF Succeeded(e) THEN RunsViol(e.runs, 1) ELSE <<>>) \o viol
         /\ stats' = VarStats([stats EXCEPT !.samples = @ + e.shots, !.draws = @ + e.shots * c.n, !.nontrivial = @ + 1], e)
         /\ UNCHANGED <<c, psi, drift>>
    \* ---- generic-phase tier (angles that are not multiples of pi/4): the harness compares with its float reference state
    \* vector (refeval.rs, validated against CircSem by RefEvalOK in the C08 traces) and TLC judges the logged booleans
    [] e.k = "circf" ->
         c' = [n |-> e.n, gates |-> <<>>] /\ psi' = <<>> /\ stats' = [stats EXCEPT !.generic_circuits = @ + 1] /\ UNCHANGED <<viol, drift>>
    [] e.k \in {"ampf", "expf"} ->
         /\ viol' = V(Succeeded(e), "QuerySucceeds", e)
                     \o (IF Succeeded(e) THEN V(e.close, IF e.k = "ampf" THEN "ProbabilityFloatOK" ELSE "ExpectationFloatOK", e) ELSE <<>>) \o viol
         /\ stats' = [stats EXCEPT !.generic_queries = @ + 1, !.nontrivial = @ + 1] /\ UNCHANGED <<c, psi, drift>>
    [] e.k = "samplef" ->
         /\ viol' = V(Succeeded(e), "QuerySucceeds", e)
                     \o (IF Succeeded(e) THEN
                           V(\A k \in 1..Len(e.runs) : e.runs[k].marg_ok, "MarginalFloatOK", e)
                           \o V(\A k \in 1..Len(e.runs) : e.runs[k].in_range, "ProbabilityInRange", e)
                           \o V(\A k \in 1..Len(e.runs) : e.runs[k].cond_ok, "ConditionalFloatOK", e)
                           \o V(\A k \in 1..Len(e.runs) : e.runs[k].is_drawn_bits, "SampleIsDrawnBits", e)
                           \o V(\A k \in 1..Len(e.runs) : e.runs[k].nonzero, "SampleHasNonZeroProbability", e)
                           \o V(Len(e.runs) = e.shots, "QuerySucceeds", e)
                         ELSE <<>>) \o viol
         /\ stats' = [stats EXCEPT !.generic_queries = @ + 1, !.samples = @ + e.shots, !.nontrivial = @ + 1] /\ UNCHANGED <<c, psi, drift>>
    [] e.k = "query" ->
         LET valid == CASE e.kind = "bits" -> StringValid(e.chars, BitChars, c.n)
                        [] e.kind = "paulis" -> StringValid(e.chars, PauliChars, c.n)
                        [] OTHER -> FALSE        \* two tasks / two methods are mutually exclusive; bad flag values; bad input files
         IN /\ viol' = (IF e.kind = "file_outside" THEN <<>>
                        ELSE IF e.kind = "file_unsupported" THEN V(~e.panicked, "UnsupportedInputNoPanic", e)
                        ELSE IF valid THEN V(e.exit = 0 /\ ~e.panicked, "QuerySucceeds", e) ELSE V(e.exit # 0 /\ ~e.panicked, "MalformedRejected", e)) \o viol
            /\ stats' = [stats EXCEPT !.malformed = @ + 1, !.variants = @ + B2N(Has(e, "variant")),
                                      !.file_errors = @ + B2N(e.kind = "file_malformed"),
                                      !.file_unsupported = @ + B2N(e.kind = "file_unsupported"),
                                      !.file_unsupported_accepted = @ + B2N(e.kind = "file_unsupported" /\ e.exit = 0),
                                      !.file_outside = @ + B2N(e.kind = "file_outside"),
                                      !.file_outside_panics = @ + B2N(e.kind = "file_outside" /\ e.panicked)]
            /\ UNCHANGED <<c, psi, drift>>
Next == \/ /\ l <= NLines /\ Step(Rec[l]) /\ l' = l + 1
        \/ /\ l = NLines + 1 /\ Report(l, viol, drift, stats) /\ l' = l + 1 /\ UNCHANGED <<c, psi, viol, drift, stats>>
=============================================================================
