-------------------------------- MODULE MC_Sim --------------------------------
(* C06 on the specification: for every small circuit, the Born quantities are consistent: total
   probability one, marginals add up (chain rule), expectation values are real and equal
   sum_b (+-1) Prob(b) for Z-type strings, <I..I> = 1; the conditional-probability sampler reaches
   exactly the bit strings of non-zero probability. *)
EXTENDS Sim
CONSTANTS NQ, MAXLEN, ONEQ, TWOQ, PHS
VARIABLES c
Qs == 0..(NQ - 1)
Pairs2 == {p \in Qs \X Qs : p[1] # p[2]}
G(t, qs, ph) == [t |-> t, qs |-> qs, ph |-> ph, vars |-> PZero]
Alphabet == {G(t, <<q>>, 0) : t \in ONEQ, q \in Qs} \cup {G("ZPhase", <<q>>, ph) : q \in Qs, ph \in PHS}
            \cup {G(t, <<p[1], p[2]>>, 0) : t \in TWOQ, p \in Pairs2}
Init == c = [n |-> NQ, gates |-> <<>>]
Next == Len(c.gates) < MAXLEN /\ \E g \in Alphabet : c' = [c EXCEPT !.gates = Append(@, g)]
psi == Psi(c)
Normalised == TotalProbOne(psi, NQ)
ChainRule == \A k \in 0..(NQ - 1) : \A pre \in [1..k -> {0, 1}] :
               N2Add(Marg(psi, NQ, Append(pre, 0)), Marg(psi, NQ, Append(pre, 1))) = Marg(psi, NQ, pre)
ExpectReal == \A P \in [1..NQ -> {"I", "X", "Y", "Z"}] : RIsReal(Expect(psi, NQ, P))
ExpectIdentity == Expect(psi, NQ, [k \in 1..NQ |-> "I"]) = ROne
\* Z-type strings: <P> = sum_b (-1)^{b . z} Prob(b)
ExpectZ == \A z \in [1..NQ -> {0, 1}] :
   Expect(psi, NQ, [k \in 1..NQ |-> IF z[k] = 1 THEN "Z" ELSE "I"]) =
   SumRingB(BIdx(NQ), LAMBDA b : LET s == N2ToRing(Prob(psi, b)) IN
                                 IF FoldFunction(+, 0, [k \in 1..NQ |-> b[k] * z[k]]) % 2 = 1 THEN RNeg(s) ELSE s)
=============================================================================
