------------------------------ MODULE MC_Equal ------------------------------
(* C12 on the specification: for every pair of circuits over the alphabet and every order in
   which full_simp may fire its rules, the answer of the rewriting-based checker obeys Def. *)
EXTENDS ToGraph, Equality
CONSTANTS NQ, MAXLEN, ONEQ, TWOQ, PHS
VARIABLES c1, c2, g, mode
vars == <<c1, c2, g, mode>>
Qs == 0..(NQ - 1)
Pairs2 == {p \in Qs \X Qs : p[1] # p[2]}
G(t, qs, ph) == [t |-> t, qs |-> qs, ph |-> ph, vars |-> PZero]
Alphabet == {G(t, <<q>>, 0) : t \in ONEQ, q \in Qs} \cup {G("ZPhase", <<q>>, ph) : q \in Qs, ph \in PHS}
            \cup {G(t, <<p[1], p[2]>>, 0) : t \in TWOQ, p \in Pairs2}
E0 == [n |-> NQ, gates |-> <<>>]
Init == c1 = E0 /\ c2 = E0 /\ g = EmptyG /\ mode = "c1"
Next ==
  \/ mode = "c1" /\ Len(c1.gates) < MAXLEN /\ \E x \in Alphabet : c1' = [c1 EXCEPT !.gates = Append(@, x)] /\ UNCHANGED <<c2, g, mode>>
  \/ mode = "c1" /\ mode' = "c2" /\ UNCHANGED <<c1, c2, g>>
  \/ mode = "c2" /\ Len(c2.gates) < MAXLEN /\ \E x \in Alphabet : c2' = [c2 EXCEPT !.gates = Append(@, x)] /\ UNCHANGED <<c1, g, mode>>
  \/ mode = "c2" /\ mode' = "rw" /\ g' = EqStart(ToGraph(c1, FALSE), ToGraph(c2, FALSE)).g /\ UNCHANGED <<c1, c2>>
  \/ mode = "rw" /\ \E r \in SimpSteps("full", g) : g' = r.g /\ UNCHANGED <<c1, c2, mode>>
S1 == CircSem(c1)
S2 == CircSem(c2)
\* the composite denotes S1^dagger ; S2 all along (C11 + C01), and the answer at every quiescent state is right
Composite == mode = "rw" => Den(g) = Compose(Dagger(S1, NQ, NQ), NQ, NQ, S2, NQ)
DefOK == (mode = "rw" /\ Quiescent("full", g)) =>
           /\ Def(EqAnswer(g, TRUE), TRUE, S1, S2, TRUE)
           /\ Def(EqAnswer(g, FALSE), TRUE, S1, S2, FALSE)
\* completeness on this family (not part of the property, reported as information): equal circuits are recognised
\* the construction behind the `pairp` events of Trace_Eq:  X Rz(t) X Rz(t) = e^{i t} I  (checked here for the multiples of pi/4,
\* an algebraic identity in t); evaluated once, in the initial state
GadgetIsPhase == mode = "c1" /\ c1 = E0 =>
                   \A k \in 0..7 : CircSem([n |-> 1, gates |-> <<G("NOT", <<0>>, 0), G("ZPhase", <<0>>, k), G("NOT", <<0>>, 0), G("ZPhase", <<0>>, k)>>])
                                   = TScale(IdTensor(1), Omega(k))
Complete == (mode = "rw" /\ Quiescent("full", g) /\ S1 = S2) => EqAnswer(g, FALSE) = "equal"
=============================================================================
