CONSTANTS GRAPHS <- GraphsT
NORMALIZE = TRUE
INIT Init
NEXT Next
INVARIANT InvNoPanic
INVARIANT InvValidTree
INVARIANT InvCacheCoherent
INVARIANT InvWidthOK
CHECK_DEADLOCK FALSE
