CONSTANTS NQ = 2
MAXLEN = 6
ONEQ = {"T", "HAD", "S"}
TWOQ = {"CNOT", "CZ"}
PHS = {}
STRAT = "full"
TEMPLATE <- TmplOne
SIMPMODE = "all"
GAUSS = "single"
INIT Init
NEXT Next
INVARIANT ExtInv
INVARIANT BasicOnly
INVARIANT NeverFails
INVARIANT DoneOK
CHECK_DEADLOCK FALSE
