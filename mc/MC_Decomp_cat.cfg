CONSTANTS K = 3
TPH = {1, 3}
SHAPE = "cat"
NB = 1
HUBPH = {0, 4}
EXTRA = TRUE
CANDMAX = 3
ALLORD = TRUE
INIT Init
NEXT Next
INVARIANT StepSumOK
CHECK_DEADLOCK FALSE
