------------------------------ MODULE MC_Rules ------------------------------
(* C04 / C10 on the specification: from every diagram of the family, every rule with every
   argument tuple (including equal, boundary and missing vertices): if the matcher accepts,
   the effect preserves the denotation under every assignment of the boolean variables and
   does not panic; the result stays well-formed. *)
EXTENDS Family, ZXSem, Rules
VARIABLES g, mode, den0, panic, last
vars == <<g, mode, den0, panic, last>>
Init == g = EmptyG /\ mode = "b1" /\ den0 = <<>> /\ panic = FALSE /\ last = <<>>
B1 == mode = "b1" /\ g' \in Shapes /\ mode' = "b2" /\ UNCHANGED <<den0, panic, last>>
B2 == mode = "b2" /\ g' \in Wirings(g) /\ mode' = "rw" /\ den0' = DenV(g', VARS) /\ UNCHANGED <<panic, last>>
Args == 0..(K + NB + 3)
Do(R, a) == LET r == Apply(R, g, a) IN
            g' = r.g /\ panic' = r.panic /\ last' = <<R, a>> /\ mode' = "done" /\ UNCHANGED den0
RW == /\ mode = "rw"
      /\ \/ \E R \in Rules1 : \E a \in Args : Check(R, g, <<a>>) /\ Do(R, <<a>>)
         \/ \E R \in Rules2 : \E a, b \in Args : Check(R, g, <<a, b>>) /\ Do(R, <<a, b>>)
Next == B1 \/ B2 \/ RW
Sound == mode = "done" => (panic \/ DenV(g, VARS) = den0)
NoPanicInv == ~panic
StaysWF == mode = "done" => (panic \/ WellFormed(g))
=============================================================================
