------------------------------- MODULE MC_Phase -------------------------------
(* C16 on the specification.  One initial state; `PickQ` enumerates every raw pair q = n/d,
   n in -N..N, d in 1..D (unreduced pairs included; the sign-flipped pair -n/-d is covered
   inside the predicates); from there three fans:
     PickK   integer multipliers k in -KM..KM                      (stage "mul")
     PickM   denominator bounds m in 2..M                          (stage "lim")
     PickR   second operands r = n2/d2, n2 in -N2..N2, d2 in 1..D2 (stage "pair"), and from a pair
     PickS   a third operand from the sample S3, only from pairs of canonical representatives
             (every triple of phases once)                         (stage "triple")
   The invariants are the predicates of spec/Phase.tla at the stage that has the operands.
   Largest intermediate product: (N + 2 KU D) * D2 and 2 * D * M, far below 2^31. *)
EXTENDS Phase
CONSTANTS N, D, N2, D2, KM, M, KU, S3
VARIABLES st, q, r, s, k, m
vars == <<st, q, r, s, k, m>>

Init == st = "start" /\ q = <<0, 1>> /\ r = <<0, 1>> /\ s = <<0, 1>> /\ k = 0 /\ m = 2
PickQ == /\ st = "start"
         /\ \E n \in (-N)..N, d \in 1..D : q' = <<n, d>>
         /\ st' = "one" /\ UNCHANGED <<r, s, k, m>>
PickK == /\ st = "one"
         /\ \E kk \in (-KM)..KM : k' = kk
         /\ st' = "mul" /\ UNCHANGED <<q, r, s, m>>
PickM == /\ st = "one"
         /\ \E mm \in 2..M : m' = mm
         /\ st' = "lim" /\ UNCHANGED <<q, r, s, k>>
PickR == /\ st = "one"
         /\ \E n \in (-N2)..N2, d \in 1..D2 : r' = <<n, d>>
         /\ st' = "pair" /\ UNCHANGED <<q, s, k, m>>
PickS == /\ st = "pair" /\ Canonical(q) /\ Canonical(r)
         /\ \E x \in S3 : s' = x
         /\ st' = "triple" /\ UNCHANGED <<q, r, k, m>>
Next == PickQ \/ PickK \/ PickM \/ PickR \/ PickS

At(stage) == st = stage
\* ---- unary (stage "one")
NormImplIsNorm == At("one") => PropNormImpl(q)
CanonicalRange == At("one") => PropRange(q)
NormUnique == At("one") => PropNormUnique(q) /\ PropNormIdem(q)
EqualModTwo == At("one") => \A kk \in (-KU)..KU : PropUnique(q, kk)
IdentityLaw == At("one") => PropIdentity(q)
InverseLaw == At("one") => PropInverse(q) /\ PropNegClass(q)
Classify == At("one") => PropClassify(q) /\ PropClassLattice(q)
ClassInvariant == At("one") => \A kk \in (-KU)..KU : PropClassInvariant(q, kk)
\* ---- integer scaling (stage "mul")
MulIntIsRepeatedAdd == At("mul") => PropMulInt(q, k)
\* Div<i64> on the representative: canonical result
DivIntCanonical == At("mul") => PropDivIntCanonical(q, k)
\* ---- limit_denominator (stage "lim")
LimitImplIsDecl == At("lim") => PropLimit(q, m)
LimitOnPhases == At("lim") => PropLimitPhase(q, m)
\* ---- binary (stage "pair")
Commutative == At("pair") => PropCommutative(q, r)
SubIsAddNeg == At("pair") => PropSub(q, r)
AgreesWithRationals == At("pair") => PropAddClass(q, r)
\* Mul<Phase> / Div<Phase> on the representatives: canonical results
RingCanonical == At("pair") => PropRingCanonical(q, r)
\* ---- ternary (stage "triple")
Associative == At("triple") => PropAssociative(q, r, s)

S3_q == {<<1, 1>>, <<1, 2>>, <<-1, 3>>, <<3, 4>>, <<-2, 5>>, <<5, 7>>}
S3_t == {<<0, 1>>, <<1, 1>>, <<1, 2>>, <<-1, 2>>, <<-1, 3>>, <<2, 3>>, <<3, 4>>, <<-1, 4>>, <<-2, 5>>, <<5, 6>>,
         <<5, 7>>, <<-7, 8>>, <<4, 9>>, <<-9, 10>>, <<10, 11>>, <<11, 12>>, <<-12, 13>>, <<15, 16>>}
=============================================================================
