--------------------------- MODULE Trace_Backends ---------------------------
(* C09: validation of recorded editing histories run against both real backends.
   begin : a new history from two empty graphs
   op    : one operation (arguments are tags), its result in each backend (rv, rh) and the full
           observable of each backend afterwards (ov, oh)
           L2 InvOK(vec) / InvOK(hash): counts = enumerations, adjacency symmetric and duplicate free,
              every query consistent with the enumerated graph
           L2 SameOutcome: the operation succeeded / failed / panicked alike in both backends and as the model predicts
           L2 Refines: both observables, renamed to tags, equal the abstract model after the same operation
              (this includes compaction: pack must rename edges, inputs and outputs consistently)
           L2 SubgraphOK for subgraph_from_vertices
           L1 names: the names handed out follow the transcribed allocators (hole stack / fresh counter)
   aside : a clone taken earlier, observed at the end: L2 CloneIndependent *)
EXTENDS TraceLib, ZXGraph
VARIABLES l, a, crd, holes, freshv, pv, pvi, asides, viol, drift, stats
vars == <<l, a, crd, holes, freshv, pv, pvi, asides, viol, drift, stats>>
Init == l = 1 /\ a = EmptyG /\ crd = <<>> /\ holes = <<>> /\ freshv = 0 /\ pv = <<>> /\ pvi = 0 /\ asides = <<>> /\ viol = <<>> /\ drift = <<>>
        /\ stats = [histories |-> 0, ops |-> 0, nontrivial |-> 0, packs |-> 0, names_predicted |-> 0]

\* ---------- internal consistency of one logged observable ----------
Names(o) == {o.verts[i].name : i \in 1..Len(o.verts)}
Distinct(s) == \A i, j \in 1..Len(s) : i # j => s[i] # s[j]
EdgeSet(o) == {<<o.edges[i][1], o.edges[i][2], o.edges[i][3]>> : i \in 1..Len(o.edges)}
AdjTriples(o) == UNION {{<<o.adj[i].v, o.adj[i].inc[k][1], o.adj[i].inc[k][2]>> : k \in 1..Len(o.adj[i].inc)} : i \in 1..Len(o.adj)}
InvOK(o) ==
  /\ o.numv = Len(o.verts) /\ Distinct([i \in 1..Len(o.verts) |-> o.verts[i].name]) /\ Distinct([i \in 1..Len(o.verts) |-> o.verts[i].tag])
  /\ o.nume = Len(o.edges) /\ Distinct(o.edges) /\ o.evec_len = Len(o.edges)
  /\ \A i \in 1..Len(o.edges) : o.edges[i][1] < o.edges[i][2] /\ {o.edges[i][1], o.edges[i][2]} \subseteq Names(o)
  \* one edge per pair
  /\ \A i, j \in 1..Len(o.edges) : i # j => <<o.edges[i][1], o.edges[i][2]>> # <<o.edges[j][1], o.edges[j][2]>>
  /\ Len(o.adj) = Len(o.verts)
  /\ \A i \in 1..Len(o.adj) : LET e == o.adj[i] IN
        /\ e.v = o.verts[i].name /\ e.deg = Len(e.inc) /\ Len(e.nbrs) = Len(e.inc)
        /\ \A k \in 1..Len(e.inc) : e.inc[k][1] = e.nbrs[k] /\ e.inc[k][1] # e.v
        /\ Distinct(e.nbrs)
  \* adjacency is symmetric with equal types and is exactly the enumerated edge set
  /\ AdjTriples(o) = {<<t[1], t[2], t[3]>> : t \in EdgeSet(o)} \cup {<<t[2], t[1], t[3]>> : t \in EdgeSet(o)}
  /\ {<<o.conn[i][1], o.conn[i][2], o.conn[i][3]>> : i \in 1..Len(o.conn)} = AdjTriples(o)
  /\ ToSet(o.contains) = Names(o) /\ ToSet(o.vvec) = Names(o) /\ Len(o.vvec) = Len(o.verts)
  /\ \A n \in Names(o) : n < o.vindex
  \* find_vertex / find_edge: every vertex and every edge is found when asked for by itself, a search by property finds a
  \* match exactly when one is enumerated
  /\ o.lost_v = <<>> /\ o.lost_e = <<>>
  /\ (o.found_z = <<>>) = (\A i \in 1..Len(o.verts) : o.verts[i].ty # "Z")
  /\ (o.found_z # <<>> => \E i \in 1..Len(o.verts) : o.verts[i].name = o.found_z[1] /\ o.verts[i].ty = "Z")
  /\ (o.found_h = <<>>) = (\A t \in EdgeSet(o) : t[3] # "H")
  /\ (o.found_h # <<>> => <<o.found_h[1], o.found_h[2], "H">> \in EdgeSet(o))

\* ---------- renaming to tag space ----------
TagOf(o, n) == o.verts[CHOOSE i \in 1..Len(o.verts) : o.verts[i].name = n].tag
TagOrDead(o, n) == IF n \in Names(o) THEN TagOf(o, n) ELSE -1
VRec(o, t) == o.verts[CHOOSE i \in 1..Len(o.verts) : o.verts[i].tag = t]
TagObs(o) ==
  LET tags == {o.verts[i].tag : i \in 1..Len(o.verts)} IN
  [vs |-> tags,
   ty |-> [t \in tags |-> VRec(o, t).ty],
   ph |-> [t \in tags |-> PhU(VRec(o, t).ph)],
   vr |-> [t \in tags |-> ParFromAbs(VRec(o, t).vars, VRec(o, t).vc)],
   et |-> [e \in {{TagOf(o, x[1]), TagOf(o, x[2])} : x \in EdgeSet(o)} |->
             (CHOOSE x \in EdgeSet(o) : {TagOf(o, x[1]), TagOf(o, x[2])} = e)[3]],
   ins |-> [k \in 1..Len(o.ins) |-> TagOrDead(o, o.ins[k])],
   outs |-> [k \in 1..Len(o.outs) |-> TagOrDead(o, o.outs[k])],
   sc |-> ScFromAbs(o.sc),
   sf |-> [e \in {{ParFromAbs(o.sf[i].cond[k][1], o.sf[i].cond[k][2]) : k \in 1..Len(o.sf[i].cond)} : i \in 1..Len(o.sf)} |->
             ScFromAbs(o.sf[CHOOSE i \in 1..Len(o.sf) : {ParFromAbs(o.sf[i].cond[k][1], o.sf[i].cond[k][2]) : k \in 1..Len(o.sf[i].cond)} = e].sc)]]
TagCrd(o) == [t \in {o.verts[i].tag : i \in 1..Len(o.verts)} |-> VRec(o, t).q]

\* ---------- the abstract model: ZXGraph operators on tags ----------
Par(vs) == <<ToSet(vs), FALSE>>
ModelStep(op) ==
  LET o == op.op IN
  CASE o = "add_vertex"    -> [g |-> AddV(a, op.tag, op.ty, 0), c |-> (op.tag :> 0) @@ crd, panic |-> FALSE]
    [] o = "add_with_data" -> [g |-> AddPar(AddV(a, op.tag, op.ty, op.ph), op.tag, Par(op.vars)), c |-> (op.tag :> op.q) @@ crd, panic |-> FALSE]
    [] o = "add_named"     -> [g |-> AddV(a, op.tag, "Z", 0), c |-> (op.tag :> 0) @@ crd, panic |-> FALSE]     \* when it succeeds
    [] o = "remove_vertex" -> [g |-> DelV(a, op.t), c |-> [t \in (DOMAIN crd) \ {op.t} |-> crd[t]], panic |-> FALSE]
    [] o = "add_edge"      -> [g |-> SetET(a, op.s, op.t, op.et), c |-> crd, panic |-> FALSE]
    [] o = "remove_edge"   -> [g |-> DelE(a, op.s, op.t), c |-> crd, panic |-> FALSE]
    [] o = "set_edge_type" -> [g |-> SetET(a, op.s, op.t, op.et), c |-> crd, panic |-> FALSE]
    [] o = "toggle_edge_type" -> [g |-> ToggleET(a, op.s, op.t), c |-> crd, panic |-> FALSE]
    [] o = "add_edge_smart" -> LET r == Smart(a, op.s, op.t, op.et) IN [g |-> r.g, c |-> crd, panic |-> r.panic]
    [] o = "set_type"      -> [g |-> [a EXCEPT !.ty[op.t] = op.ty], c |-> crd, panic |-> FALSE]
    [] o = "set_phase"     -> [g |-> SetPh(a, op.t, op.ph), c |-> crd, panic |-> FALSE]
    [] o = "add_to_phase"  -> [g |-> AddPh(a, op.t, op.ph), c |-> crd, panic |-> FALSE]
    [] o = "set_vars"      -> [g |-> [a EXCEPT !.vr[op.t] = Par(op.vars)], c |-> crd, panic |-> FALSE]
    [] o = "add_to_vars"   -> [g |-> AddPar(a, op.t, Par(op.vars)), c |-> crd, panic |-> FALSE]
    [] o \in {"set_qubit", "set_coord"} -> [g |-> a, c |-> [crd EXCEPT ![op.t] = op.q], panic |-> FALSE]
    [] o = "set_inputs"    -> [g |-> [a EXCEPT !.ins = op.ts], c |-> crd, panic |-> FALSE]
    [] o = "set_outputs"   -> [g |-> [a EXCEPT !.outs = op.ts], c |-> crd, panic |-> FALSE]
    [] o = "push_output"   -> [g |-> [a EXCEPT !.outs = Append(@, op.t)], c |-> crd, panic |-> FALSE]
    [] o = "mul_sqrt2"     -> [g |-> MulSc(a, Sqrt2Pow(op.p)), c |-> crd, panic |-> FALSE]
    [] o = "mul_phase"     -> [g |-> MulSc(a, Omega(op.ph)), c |-> crd, panic |-> FALSE]
    [] o = "mul_sf"        -> [g |-> MulSF(a, Lin(Par(op.vars)), Omega(op.ph)), c |-> crd, panic |-> FALSE]
    [] o = "append_self"   ->
         LET m == [t \in a.vs |-> t + op.off]
             b == Rename(a, m) IN
         [g |-> [a EXCEPT !.vs = a.vs \cup b.vs, !.ty = b.ty @@ a.ty, !.ph = b.ph @@ a.ph, !.vr = b.vr @@ a.vr,
                          !.et = b.et @@ a.et, !.sc = RMul(a.sc, a.sc)],
          c |-> [t \in b.vs |-> crd[t - op.off]] @@ crd, panic |-> FALSE]
    [] OTHER -> [g |-> a, c |-> crd, panic |-> FALSE]      \* pack, clone_aside, subgraph: no change
\* the sub-graph on the listed tags: data and induced edges only
SubModel(ts) == [EmptyG EXCEPT !.vs = ToSet(ts), !.ty = [t \in ToSet(ts) |-> a.ty[t]], !.ph = [t \in ToSet(ts) |-> a.ph[t]],
                               !.vr = [t \in ToSet(ts) |-> a.vr[t]],
                               !.et = [e \in {e \in DOMAIN a.et : e \subseteq ToSet(ts)} |-> a.et[e]]]

\* the vector backend's stack of freed names after the operation (transcription of vec_graph.rs; pv / pvi are the
\* tag -> name map and the table length before the operation, ov the observable after it)
DropName(s, x) == SelectSeq(s, LAMBDA y : y # x)
RECURSIVE PopN(_, _)
PopN(s, n) == IF n = 0 \/ s = <<>> THEN s ELSE PopN(Front(s), n - 1)
HolesAfter(op, ov) ==
  CASE op.op \in {"add_vertex", "add_with_data"} -> IF holes # <<>> THEN Front(holes) ELSE holes
    [] op.op = "remove_vertex" -> Append(holes, pv[op.t])
    [] op.op = "add_named" -> IF op.name < pvi THEN DropName(holes, op.name) ELSE holes \o [i \in 1..(op.name - pvi) |-> pvi + i - 1]
    [] op.op = "pack" -> IF op.force \/ Len(holes) * 10 > pvi THEN <<>> ELSE holes
    [] op.op = "append_self" -> PopN(holes, op.off - op.off + Cardinality(a.vs))
    [] OTHER -> holes

Step(e) ==
  CASE e.k = "begin" ->
         /\ a' = EmptyG /\ crd' = <<>> /\ holes' = <<>> /\ freshv' = 0 /\ pv' = <<>> /\ pvi' = 0 /\ asides' = <<>>
         /\ stats' = [stats EXCEPT !.histories = @ + 1] /\ UNCHANGED <<viol, drift>>
    [] e.k = "op" ->
         IF Has(e, "obs_panic") THEN
           viol' = Append(viol, <<l, "NoPanic", "observation">>) /\ UNCHANGED <<a, crd, holes, freshv, pv, pvi, asides, drift, stats>>
         ELSE
         LET op == e.op
             m == ModelStep(op)
             \* expected outcome: named insertion fails exactly on a live name; smart insertion panics as the model says
             expect == IF op.op = "add_named" THEN e.rv.res ELSE IF m.panic THEN "panic" ELSE "ok"
             applied == e.rv.res = "ok"
             a2 == IF applied THEN m.g ELSE a
             c2 == IF applied THEN m.c ELSE crd
             same == e.rv.res = e.rh.res /\ e.rv.res = expect
             tv == TagObs(e.ov)
             th == TagObs(e.oh)
             refines == tv = a2 /\ th = a2 /\ TagCrd(e.ov) = c2 /\ TagCrd(e.oh) = c2
             inv1 == InvOK(e.ov)
             inv2 == InvOK(e.oh)
             subok == op.op # "subgraph" \/ ~applied \/
                      (LET sv == TagObs(e.rv.sub)  sh == TagObs(e.rh.sub) IN
                       sv = SubModel(op.ts) /\ sh = SubModel(op.ts) /\ InvOK(e.rv.sub) /\ InvOK(e.rh.sub))
             \* L1: allocator transcription (vector backend: last freed name first, else the table length; hash: fresh counter)
             alloc == op.op \in {"add_vertex", "add_with_data"}
             predv == IF holes # <<>> THEN Last(holes) ELSE e.ov.vindex - 1
             nameok == ~alloc \/ ~applied \/ (e.rv.name = predv /\ e.rh.name = freshv)
         IN /\ a' = a2 /\ crd' = c2
            /\ viol' = (IF inv1 THEN <<>> ELSE <<<<l, "InvOK", "vec", op.op>>>>) \o (IF inv2 THEN <<>> ELSE <<<<l, "InvOK", "hash", op.op>>>>)
                       \o (IF same THEN <<>> ELSE <<<<l, "SameOutcome", op.op>>>>) \o (IF refines THEN <<>> ELSE <<<<l, "Refines", op.op>>>>)
                       \o (IF subok THEN <<>> ELSE <<<<l, "SubgraphOK">>>>) \o viol
            /\ drift' = IF nameok THEN drift ELSE Append(drift, <<l, "AllocatorName", op.op>>)
            /\ holes' = IF applied THEN HolesAfter(op, e.ov) ELSE holes
            /\ pv' = [t \in {e.ov.verts[i].tag : i \in 1..Len(e.ov.verts)} |-> VRec(e.ov, t).name] /\ pvi' = e.ov.vindex
            /\ freshv' = e.oh.vindex
            /\ asides' = IF op.op = "clone_aside" /\ applied THEN Append(asides, <<e.ov, e.oh>>) ELSE asides
            /\ stats' = [stats EXCEPT !.ops = @ + 1, !.nontrivial = @ + (IF a2 # a THEN 1 ELSE 0),
                                      !.packs = @ + (IF op.op = "pack" THEN 1 ELSE 0),
                                      !.names_predicted = @ + (IF alloc /\ applied /\ nameok THEN 1 ELSE 0)]
    [] e.k = "aside" ->
         /\ viol' = IF e.i <= Len(asides) /\ asides[e.i] = <<e.ov, e.oh>> THEN viol ELSE Append(viol, <<l, "CloneIndependent">>)
         /\ UNCHANGED <<a, crd, holes, freshv, pv, pvi, asides, drift, stats>>
Next == \/ /\ l <= NLines /\ Step(Rec[l]) /\ l' = l + 1
        \/ /\ l = NLines + 1 /\ Report(l, viol, drift, stats) /\ l' = l + 1
           /\ UNCHANGED <<a, crd, holes, freshv, pv, pvi, asides, viol, drift, stats>>
=============================================================================
