--------------------------- MODULE Trace_Backends ---------------------------
(* C09: validation of recorded editing histories run against both real backends.
   begin : a new history from two empty graphs
   op    : one operation (arguments are tags), its result in each backend (rv, rh) and the full
           observable of each backend afterwards (ov, oh)
           L2 InvOK(vec) / InvOK(hash): counts = enumerations, adjacency symmetric and duplicate free,
              every query consistent with the enumerated graph
           L2 SameOutcome: the operation succeeded / failed / panicked alike in both backends and as the model predicts
           L2 Refines: both observables, renamed to tags, equal the abstract model after the same operation
              (this includes compaction: pack must rename edges, inputs and outputs consistently)
           L2 SubgraphOK for subgraph_from_vertices
           L1 names: the names handed out follow the transcribed allocators (hole stack / fresh counter)
   aside : a clone taken earlier, observed at the end: L2 CloneIndependent
   Histories recorded with --ext (API-coverage gaps #18, #19 and the C09 / C10 rows of docs/api_audit.md) additionally carry
     - `x` inside every observable: the remaining queries of the interface      L2 InvOKx (each consistent with the enumerated graph), SameAnswers
     - operations add_bnd (add_edge, inputs_mut / outputs_mut), add_vph (add_vertex_with_phase), push_input, bnd_remove, adjoint, x_to_z,
       plug_vertex, plug_input(s), plug_output(s), make_bipartite, copy, append_x / plug_x (other of the OTHER backend type):
       judged like every other operation by SameOutcome and Refines against the transcriptions of spec/Compose.tla / ZXGraph.tla
       in tag space; copy by L2 CopyOK
     - Parity / Expr values built with every constructor and operator of params.rs as arguments of set_vars / add_to_vars /
       mul_sf (model: PXor, Lin, QuadCode on the denoted parity), get_scalar_factor read back (L2 GetSFOK), and the pure operation
       par_alg                                                                  L2 ParAlgOK, L1 ParityNormalForm *)
EXTENDS TraceLib, Compose
VARIABLES l, a, crd, holes, freshv, pv, pvi, asides, viol, drift, stats
vars == <<l, a, crd, holes, freshv, pv, pvi, asides, viol, drift, stats>>
Init == l = 1 /\ a = EmptyG /\ crd = <<>> /\ holes = <<>> /\ freshv = 0 /\ pv = <<>> /\ pvi = 0 /\ asides = <<>> /\ viol = <<>> /\ drift = <<>>
        /\ stats = [histories |-> 0, ops |-> 0, nontrivial |-> 0, packs |-> 0, names_predicted |-> 0,
                    xobs |-> 0, ext_ops |-> 0, plugs |-> 0, par_algs |-> 0, par_unsorted |-> 0, par_unsorted_wrong |-> 0, from_default |-> 0]

\* ---------- internal consistency of one logged observable ----------
Names(o) == {o.verts[i].name : i \in 1..Len(o.verts)}
Distinct(s) == \A i, j \in 1..Len(s) : i # j => s[i] # s[j]
EdgeSet(o) == {<<o.edges[i][1], o.edges[i][2], o.edges[i][3]>> : i \in 1..Len(o.edges)}
AdjTriples(o) == UNION {{<<o.adj[i].v, o.adj[i].inc[k][1], o.adj[i].inc[k][2]>> : k \in 1..Len(o.adj[i].inc)} : i \in 1..Len(o.adj)}
InvOK(o) ==
  /\ o.numv = Len(o.verts) /\ Distinct([i \in 1..Len(o.verts) |-> o.verts[i].name]) /\ Distinct([i \in 1..Len(o.verts) |-> o.verts[i].tag])
  /\ o.nume = Len(o.edges) /\ Distinct(o.edges) /\ o.evec_len = Len(o.edges)
  /\ \A i \in 1..Len(o.edges) : o.edges[i][1] < o.edges[i][2] /\ {o.edges[i][1], o.edges[i][2]} \subseteq Names(o)
  \* one edge per pair
  /\ \A i, j \in 1..Len(o.edges) : i # j => <<o.edges[i][1], o.edges[i][2]>> # <<o.edges[j][1], o.edges[j][2]>>
  /\ Len(o.adj) = Len(o.verts)
  /\ \A i \in 1..Len(o.adj) : LET e == o.adj[i] IN
        /\ e.v = o.verts[i].name /\ e.deg = Len(e.inc) /\ Len(e.nbrs) = Len(e.inc)
        /\ \A k \in 1..Len(e.inc) : e.inc[k][1] = e.nbrs[k] /\ e.inc[k][1] # e.v
        /\ Distinct(e.nbrs)
  \* adjacency is symmetric with equal types and is exactly the enumerated edge set
  /\ AdjTriples(o) = {<<t[1], t[2], t[3]>> : t \in EdgeSet(o)} \cup {<<t[2], t[1], t[3]>> : t \in EdgeSet(o)}
  /\ {<<o.conn[i][1], o.conn[i][2], o.conn[i][3]>> : i \in 1..Len(o.conn)} = AdjTriples(o)
  /\ ToSet(o.contains) = Names(o) /\ ToSet(o.vvec) = Names(o) /\ Len(o.vvec) = Len(o.verts)
  /\ \A n \in Names(o) : n < o.vindex
  \* find_vertex / find_edge: every vertex and every edge is found when asked for by itself, a search by property finds a
  \* match exactly when one is enumerated
  /\ o.lost_v = <<>> /\ o.lost_e = <<>>
  /\ (o.found_z = <<>>) = (\A i \in 1..Len(o.verts) : o.verts[i].ty # "Z")
  /\ (o.found_z # <<>> => \E i \in 1..Len(o.verts) : o.verts[i].name = o.found_z[1] /\ o.verts[i].ty = "Z")
  /\ (o.found_h = <<>>) = (\A t \in EdgeSet(o) : t[3] # "H")
  /\ (o.found_h # <<>> => <<o.found_h[1], o.found_h[2], "H">> \in EdgeSet(o))

\* ---------- the extended observable (--ext): every remaining query agrees with the enumerated graph ----------
\* the parity a logged variable list denotes: a variable listed twice cancels (From<Vec<Var>> keeps duplicates, params.rs:85-92)
ParOdd(vs, c) == <<{v \in ToSet(vs) : Cardinality({i \in 1..Len(vs) : vs[i] = v}) % 2 = 1}, c>>
CondOf(j) == {ParOdd(j[k][1], j[k][2]) : k \in 1..Len(j)}
SfFun(o) == [e \in {CondOf(o.sf[i].cond) : i \in 1..Len(o.sf)} |-> ScFromAbs(o.sf[CHOOSE i \in 1..Len(o.sf) : CondOf(o.sf[i].cond) = e].sc)]
GetOK(o, r) == r.has = (CondOf(r.cond) \in DOMAIN SfFun(o)) /\ (r.has => ScFromAbs(r.sc) = SfFun(o)[CondOf(r.cond)])
CompsOf(o) ==
  LET rep == ClassRep([vs |-> Names(o)], {{t[1], t[2]} : t \in EdgeSet(o)})
  IN {{v \in Names(o) : rep[v] = r} : r \in {rep[v] : v \in Names(o)}}
BitSet(m) == {<<m.bits[i][1], m.bits[i][2]>> : i \in 1..Len(m.bits)}
ConnPairs(o) == {<<t[1], t[2]>> : t \in AdjTriples(o)}
InvOKx(o) ==
  LET x == o.x  n == Len(o.verts) IN
  \* vertex_type_opt / phase / vars / coord, vertex_data_opt, phase_and_vars give the data vertex_data gives
  /\ x.verts2 = o.verts /\ x.verts3 = o.verts
  /\ Len(x.pv) = n /\ \A i \in 1..n : x.pv[i] = [name |-> o.verts[i].name, ph |-> o.verts[i].ph, vars |-> o.verts[i].vars, vc |-> o.verts[i].vc]
  \* the Option-returning queries answer Some exactly on live names / existing edges (names up to beyond the index range were asked)
  /\ x.vdo = o.contains /\ x.vto = o.contains
  /\ {<<x.eto[i][1], x.eto[i][2], x.eto[i][3]>> : i \in 1..Len(x.eto)} = AdjTriples(o) /\ Len(x.eto) = 2 * Len(o.edges)
  /\ Len(x.nb) = n /\ \A i \in 1..n : x.nb[i].v = o.adj[i].v /\ x.nb[i].nbv = o.adj[i].nbrs /\ x.nb[i].iev = o.adj[i].inc
  \* component_vertices: the partition into connected components
  /\ {ToSet(x.comps[i]) : i \in 1..Len(x.comps)} = CompsOf(o) /\ Len(x.comps) = Cardinality(CompsOf(o))
  /\ \A i \in 1..Len(x.comps) : Distinct(x.comps[i])
  \* depth: the largest row (the row holds the tag); what it answers on the empty graph is not specified (both backends alike: SameAnswers)
  /\ (n > 0 => x.depth = Max({o.verts[i].tag : i \in 1..n}))
  \* adjacency_matrix(None): square over all vertices in the order of vertices(); (Some(list)): in the order of the list
  /\ x.am.rows = n /\ x.am.cols = n /\ Len(x.am.order) = n /\ ToSet(x.am.order) = Names(o) /\ Len(x.am.bits) = Cardinality(BitSet(x.am))
  /\ {<<x.am.order[b[1] + 1], x.am.order[b[2] + 1]>> : b \in BitSet(x.am)} = ConnPairs(o)
  /\ x.ams.rows = Len(x.ams.list) /\ x.ams.cols = Len(x.ams.list) /\ Len(x.ams.bits) = Cardinality(BitSet(x.ams))
  /\ BitSet(x.ams) = {<<i - 1, j - 1>> : <<i, j>> \in {p \in (1..Len(x.ams.list)) \X (1..Len(x.ams.list)) : <<x.ams.list[p[1]], x.ams.list[p[2]]>> \in ConnPairs(o)}}
  \* get_scalar_factor: Some with the enumerated value exactly on the enumerated conditions
  /\ Len(x.gsf) = Len(o.sf) /\ \A i \in 1..Len(x.gsf) : x.gsf[i].has /\ GetOK(o, x.gsf[i])
  /\ {CondOf(x.gsf[i].cond) : i \in 1..Len(x.gsf)} = DOMAIN SfFun(o)
  /\ \A i \in 1..Len(x.probes) : GetOK(o, x.probes[i])
  \* vec_graph::Graph::neighbor_at(v, 0..degree) walks the neighbours
  /\ (Has(x, "nat") => Len(x.nat) = n /\ \A i \in 1..n : Len(x.nat[i]) = o.adj[i].deg /\ ToSet(x.nat[i]) = ToSet(o.adj[i].nbrs))

\* the minimum for the tag-space comparison to be evaluable at all
Sane(o) == /\ Distinct([i \in 1..Len(o.verts) |-> o.verts[i].name]) /\ Distinct([i \in 1..Len(o.verts) |-> o.verts[i].tag])
           /\ \A i \in 1..Len(o.edges) : {o.edges[i][1], o.edges[i][2]} \subseteq Names(o)
           /\ \A i \in 1..Len(o.verts) : o.verts[i].tag >= 0

\* ---------- renaming to tag space ----------
TagOf(o, n) == o.verts[CHOOSE i \in 1..Len(o.verts) : o.verts[i].name = n].tag
TagOrDead(o, n) == IF n \in Names(o) THEN TagOf(o, n) ELSE -1
VRec(o, t) == o.verts[CHOOSE i \in 1..Len(o.verts) : o.verts[i].tag = t]
TagObs(o) ==
  LET tags == {o.verts[i].tag : i \in 1..Len(o.verts)} IN
  [vs |-> tags,
   ty |-> [t \in tags |-> VRec(o, t).ty],
   ph |-> [t \in tags |-> PhU(VRec(o, t).ph)],
   vr |-> [t \in tags |-> ParOdd(VRec(o, t).vars, VRec(o, t).vc)],
   et |-> [e \in {{TagOf(o, x[1]), TagOf(o, x[2])} : x \in EdgeSet(o)} |->
             (CHOOSE x \in EdgeSet(o) : {TagOf(o, x[1]), TagOf(o, x[2])} = e)[3]],
   ins |-> [k \in 1..Len(o.ins) |-> TagOrDead(o, o.ins[k])],
   outs |-> [k \in 1..Len(o.outs) |-> TagOrDead(o, o.outs[k])],
   sc |-> ScFromAbs(o.sc),
   sf |-> SfFun(o)]
TagCrd(o) == [t \in {o.verts[i].tag : i \in 1..Len(o.verts)} |-> VRec(o, t).q]

\* ---------- the abstract model: ZXGraph operators on tags ----------
Par(vs) == <<ToSet(vs), FALSE>>
\* the parity denoted by a described construction (harness: mk_par): every constructor / operator of params.rs
POneC == <<{}, TRUE>>
RECURSIVE PM(_)
PM(pc) == CASE pc.how = "new" -> ParOdd(pc.vars, pc.c)
            [] pc.how = "from_vec" -> ParOdd(pc.vars, FALSE)
            [] pc.how = "single" -> <<{pc.v}, FALSE>>
            [] pc.how = "one" -> POneC
            [] pc.how = "zero" -> PZero
            [] pc.how = "neg" -> LET p == PM(pc.of) IN <<p[1], ~p[2]>>
            [] pc.how \in {"sum", "sum_owned"} -> PXor(PM(pc.a), PM(pc.b))
\* Expr::quadratic (params.rs:161-173) on canonical parities: equal conjuncts collapse, a constant-1 conjunct is dropped unless the
\* other one is the constant 0 (then it sorts first and nothing is dropped)
QuadCode(p, q) == IF p = q THEN {p} ELSE IF POneC \in {p, q} /\ PZero \notin {p, q} THEN {p, q} \ {POneC} ELSE {p, q}
OpPar(op) == IF Has(op, "pc") THEN PM(op.pc) ELSE Par(op.vars)
OpCond(op) == IF Has(op, "pc2") THEN QuadCode(PM(op.pc), PM(op.pc2)) ELSE Lin(OpPar(op))
\* --ext operations: transcriptions of spec/Compose.tla / ZXGraph.tla applied in tag space
XOps == {"init", "par_alg", "add_bnd", "add_vph", "push_input", "bnd_remove", "adjoint", "x_to_z", "plug_vertex", "plug_input", "plug_output",
         "plug_inputs", "plug_outputs", "make_bipartite", "copy", "append_x", "plug_x"}
DropAt(s, i) == SubSeq(s, 1, i) \o SubSeq(s, i + 2, Len(s))            \* Vec::remove(i), i counted from 0
CrdOn(vs, c) == [t \in vs |-> IF t \in DOMAIN c THEN c[t] ELSE 0]
OtherT(op) ==
  LET h == FromAbs(op.other)
      r(v) == op.other.v[CHOOSE i \in 1..Len(op.other.v) : op.other.v[i].id = v].r
  IN Rename(h, [v \in h.vs |-> r(v)])
\* a Z-basis element needs "the" neighbour of the plugged vertex
CanPlug(g, v, b) == v \in g.vs /\ (BIsZ(b) => Nbrs(g, v) # {})
PlugListOK(g, bnds, plug) == Len(plug) <= Len(bnds) /\ \A k \in 1..Len(plug) : CanPlug(g, bnds[k], plug[k])
AppendTag(off) ==
  LET m == [t \in a.vs |-> t + off]
      b == Rename(a, m) IN
  [g |-> [a EXCEPT !.vs = a.vs \cup b.vs, !.ty = b.ty @@ a.ty, !.ph = b.ph @@ a.ph, !.vr = b.vr @@ a.vr,
                   !.et = b.et @@ a.et, !.sc = RMul(a.sc, a.sc)],
   c |-> [t \in b.vs |-> crd[t - off]] @@ crd, panic |-> FALSE,
   \* once append_graph takes over other's conditional factors (work/gC_fix_1.diff) every factor is multiplied by itself
   alt |-> [a EXCEPT !.vs = a.vs \cup b.vs, !.ty = b.ty @@ a.ty, !.ph = b.ph @@ a.ph, !.vr = b.vr @@ a.vr,
                     !.et = b.et @@ a.et, !.sc = RMul(a.sc, a.sc), !.sf = MergeSF(a.sf, a.sf)]]
ModelStepX(op) ==
  LET o == op.op
      ok(g) == [g |-> g, c |-> CrdOn(g.vs, crd), panic |-> FALSE]
      bad == [g |-> a, c |-> crd, panic |-> TRUE]
  IN
  CASE o = "add_bnd" -> LET g1 == SetET(AddV(a, op.tag, "B", 0), op.tag, op.s, op.et) IN
                        ok(IF op.side = "in" THEN [g1 EXCEPT !.ins = Append(@, op.tag)] ELSE [g1 EXCEPT !.outs = Append(@, op.tag)])
    [] o = "add_vph" -> ok(AddV(a, op.tag, op.ty, op.ph))
    [] o = "push_input" -> ok([a EXCEPT !.ins = Append(@, op.t)])
    [] o = "bnd_remove" -> ok(IF op.side = "in" THEN [a EXCEPT !.ins = DropAt(@, op.i)] ELSE [a EXCEPT !.outs = DropAt(@, op.i)])
    \* alt: once adjoint conjugates the conditional factors (work/gC_fix_2.diff)
    [] o = "adjoint" -> [g |-> Adjoint(a), c |-> crd, panic |-> FALSE, alt |-> AdjointFull(a)]
    [] o = "x_to_z" -> ok(XToZ(a))
    [] o = "plug_vertex" -> IF CanPlug(a, op.t, op.b) THEN ok(PlugVertex(a, op.t, op.b)) ELSE bad
    [] o = "plug_output" -> IF op.i < Len(a.outs) /\ CanPlug(a, a.outs[op.i + 1], op.b)
                            THEN ok(MulSc([PlugVertex(a, a.outs[op.i + 1], op.b) EXCEPT !.outs = DropAt(@, op.i)], Sqrt2Pow(-1))) ELSE bad
    [] o = "plug_input" -> IF op.i < Len(a.ins) /\ CanPlug(a, a.ins[op.i + 1], op.b)
                           THEN ok(MulSc([PlugVertex(a, a.ins[op.i + 1], op.b) EXCEPT !.ins = DropAt(@, op.i)], Sqrt2Pow(-1))) ELSE bad
    [] o = "plug_outputs" -> IF PlugListOK(a, a.outs, op.list) THEN ok(PlugOutputs(a, op.list)) ELSE bad
    [] o = "plug_inputs" -> IF PlugListOK(a, a.ins, op.list) THEN ok(PlugInputs(a, op.list)) ELSE bad
    [] o = "make_bipartite" ->
         LET nm == [e \in {{op.newtags[i][1], op.newtags[i][2]} : i \in 1..Len(op.newtags)} |->
                      op.newtags[CHOOSE i \in 1..Len(op.newtags) : {op.newtags[i][1], op.newtags[i][2]} = e][3]]
         IN IF DOMAIN nm # SameColour(a) THEN bad
            ELSE [g |-> BipartiteNamed(a, nm),
                  c |-> [t \in {nm[e] : e \in DOMAIN nm} |-> (crd[Min(CHOOSE e \in DOMAIN nm : nm[e] = t)] + crd[Max(CHOOSE e \in DOMAIN nm : nm[e] = t)]) \div 2] @@ crd,
                  panic |-> FALSE]
    [] o = "append_x" -> AppendTag(op.off)
    [] o = "plug_x" -> LET h == OtherT(op)
                           r == PlugNamed(a, h, [v \in h.vs |-> v])
                       IN IF h.vs \cap a.vs # {} THEN bad ELSE [g |-> r.g, c |-> CrdOn(r.g.vs, crd), panic |-> r.panic]
    [] OTHER -> [g |-> a, c |-> crd, panic |-> FALSE]      \* init, par_alg, copy: no change
\* copy(adjoint): vertices, data and edges as the transcription CopyCode says, consecutive names ("The copy will have consecutive
\* vertex indices"), coordinates kept
\* (the copy as the code makes it today, or complete as documented - work/gC_fix_3.diff -, with or without conjugated factors)
CopyOK(op, sub) == /\ TagObs(sub) \in {CopyCode(a, op.adj), IF op.adj THEN Adjoint(a) ELSE a, CopySpec(a, op.adj)}
                   /\ InvOK(sub) /\ Names(sub) = 0..(sub.numv - 1) /\ TagCrd(sub) = crd
\* the pure Parity / Expr interface (harness: par_alg)
VarsSorted(s) == \A i \in 1..(Len(s) - 1) : s[i] <= s[i + 1]
VarsStrict(s) == \A i \in 1..(Len(s) - 1) : s[i] < s[i + 1]
PMr(x) == ParOdd(x.vars, x.c)
Sigs4 == [0..3 -> BOOLEAN]
\* both addition operators (&a + &b, a + b) denote the XOR
ParSumOK(r) == PMr(r.sum_ref) = PXor(PMr(r.a), PMr(r.b)) /\ PMr(r.sum_own) = PMr(r.sum_ref)
ParAlgOK(r) ==
  /\ ((VarsSorted(r.a.vars) /\ VarsSorted(r.b.vars)) => ParSumOK(r))             \* merge-XOR presupposes the documented invariant "kept sorted"
  /\ PMr(r.neg) = <<PMr(r.a)[1], ~r.a.c>>
  \* len / is_empty / is_one / is_zero / Index describe the stored list (iter) and constant
  /\ r.len = Len(r.a.vars) /\ r.empty = (Len(r.a.vars) = 0) /\ r.is_one = (Len(r.a.vars) = 0 /\ r.a.c) /\ r.is_zero = (Len(r.a.vars) = 0 /\ ~r.a.c)
  /\ r.idx = r.a.vars
  \* Expr::len / is_linear / is_empty / Index describe the stored conjuncts (iter)
  /\ r.lin_len = Len(r.lin) /\ r.lin_is_linear = (r.lin_len = 1) /\ r.lin_empty = (r.lin_len = 0)
  /\ r.quad_len = Len(r.quad) /\ r.quad_is_linear = (r.quad_len = 1) /\ Len(r.quad_idx) = Len(r.quad)
  /\ \A k \in 1..Len(r.quad) : r.quad_idx[k].vars = r.quad[k][1] /\ r.quad_idx[k].c = r.quad[k][2]
  \* a conjunction of XORs: under every assignment linear(a) holds iff a is odd, quadratic(a, b) iff both are
  /\ \A sig \in Sigs4 : /\ EEval(CondOf(r.lin), sig) = PEval(PMr(r.a), sig)
                         /\ EEval(CondOf(r.quad), sig) = (PEval(PMr(r.a), sig) /\ PEval(PMr(r.b), sig))
ModelStep(op) ==
  LET o == op.op IN
  IF o \in XOps THEN ModelStepX(op) ELSE
  CASE o = "add_vertex"    -> [g |-> AddV(a, op.tag, op.ty, 0), c |-> (op.tag :> 0) @@ crd, panic |-> FALSE]
    [] o = "add_with_data" -> [g |-> AddPar(AddV(a, op.tag, op.ty, op.ph), op.tag, Par(op.vars)), c |-> (op.tag :> op.q) @@ crd, panic |-> FALSE]
    [] o = "add_named"     -> [g |-> AddV(a, op.tag, "Z", 0), c |-> (op.tag :> 0) @@ crd, panic |-> FALSE]     \* when it succeeds
    [] o = "remove_vertex" -> [g |-> DelV(a, op.t), c |-> [t \in (DOMAIN crd) \ {op.t} |-> crd[t]], panic |-> FALSE]
    [] o = "add_edge"      -> [g |-> SetET(a, op.s, op.t, op.et), c |-> crd, panic |-> FALSE]
    [] o = "remove_edge"   -> [g |-> DelE(a, op.s, op.t), c |-> crd, panic |-> FALSE]
    [] o = "set_edge_type" -> [g |-> SetET(a, op.s, op.t, op.et), c |-> crd, panic |-> FALSE]
    [] o = "toggle_edge_type" -> [g |-> ToggleET(a, op.s, op.t), c |-> crd, panic |-> FALSE]
    [] o = "add_edge_smart" -> LET r == Smart(a, op.s, op.t, op.et) IN [g |-> r.g, c |-> crd, panic |-> r.panic]
    [] o = "set_type"      -> [g |-> [a EXCEPT !.ty[op.t] = op.ty], c |-> crd, panic |-> FALSE]
    [] o = "set_phase"     -> [g |-> SetPh(a, op.t, op.ph), c |-> crd, panic |-> FALSE]
    [] o = "add_to_phase"  -> [g |-> AddPh(a, op.t, op.ph), c |-> crd, panic |-> FALSE]
    [] o = "set_vars"      -> [g |-> [a EXCEPT !.vr[op.t] = OpPar(op)], c |-> crd, panic |-> FALSE]
    [] o = "add_to_vars"   -> [g |-> AddPar(a, op.t, OpPar(op)), c |-> crd, panic |-> FALSE]
    [] o \in {"set_qubit", "set_coord"} -> [g |-> a, c |-> [crd EXCEPT ![op.t] = op.q], panic |-> FALSE]
    [] o = "set_inputs"    -> [g |-> [a EXCEPT !.ins = op.ts], c |-> crd, panic |-> FALSE]
    [] o = "set_outputs"   -> [g |-> [a EXCEPT !.outs = op.ts], c |-> crd, panic |-> FALSE]
    [] o = "push_output"   -> [g |-> [a EXCEPT !.outs = Append(@, op.t)], c |-> crd, panic |-> FALSE]
    [] o = "mul_sqrt2"     -> [g |-> MulSc(a, Sqrt2Pow(op.p)), c |-> crd, panic |-> FALSE]
    [] o = "mul_phase"     -> [g |-> MulSc(a, Omega(op.ph)), c |-> crd, panic |-> FALSE]
    [] o = "mul_sf"        -> [g |-> MulSF(a, OpCond(op), Omega(op.ph)), c |-> crd, panic |-> FALSE]
    [] o = "append_self"   ->
         LET m == [t \in a.vs |-> t + op.off]
             b == Rename(a, m) IN
         [g |-> [a EXCEPT !.vs = a.vs \cup b.vs, !.ty = b.ty @@ a.ty, !.ph = b.ph @@ a.ph, !.vr = b.vr @@ a.vr,
                          !.et = b.et @@ a.et, !.sc = RMul(a.sc, a.sc)],
          c |-> [t \in b.vs |-> crd[t - op.off]] @@ crd, panic |-> FALSE,
          \* once append_graph takes over other's conditional factors (work/gC_fix_1.diff) every factor is multiplied by itself
          alt |-> [a EXCEPT !.vs = a.vs \cup b.vs, !.ty = b.ty @@ a.ty, !.ph = b.ph @@ a.ph, !.vr = b.vr @@ a.vr,
                            !.et = b.et @@ a.et, !.sc = RMul(a.sc, a.sc), !.sf = MergeSF(a.sf, a.sf)]]
    [] OTHER -> [g |-> a, c |-> crd, panic |-> FALSE]      \* pack, clone_aside, subgraph: no change
\* the sub-graph on the listed tags: data and induced edges only
SubModel(ts) == [EmptyG EXCEPT !.vs = ToSet(ts), !.ty = [t \in ToSet(ts) |-> a.ty[t]], !.ph = [t \in ToSet(ts) |-> a.ph[t]],
                               !.vr = [t \in ToSet(ts) |-> a.vr[t]],
                               !.et = [e \in {e \in DOMAIN a.et : e \subseteq ToSet(ts)} |-> a.et[e]]]

\* the vector backend's stack of freed names after the operation (transcription of vec_graph.rs; pv / pvi are the
\* tag -> name map and the table length before the operation, ov the observable after it)
DropName(s, x) == SelectSeq(s, LAMBDA y : y # x)
RECURSIVE PopN(_, _)
PopN(s, n) == IF n = 0 \/ s = <<>> THEN s ELSE PopN(Front(s), n - 1)
\* after plug_x (vertices appended, then removed pairwise) the stack is not predicted any more until the next compaction
HolesUnknown == <<-1>>
HolesAfter(op, ov) ==
  IF holes = HolesUnknown THEN (IF op.op = "pack" /\ (op.force \/ (pvi - Cardinality(DOMAIN pv)) * 10 > pvi) THEN <<>> ELSE HolesUnknown) ELSE
  CASE op.op \in {"add_vertex", "add_with_data", "add_bnd", "add_vph"} -> IF holes # <<>> THEN Front(holes) ELSE holes
    [] op.op = "make_bipartite" -> PopN(holes, Len(op.newtags))
    [] op.op = "append_x" -> PopN(holes, Cardinality(a.vs))
    [] op.op = "plug_x" -> HolesUnknown
    [] op.op = "remove_vertex" -> Append(holes, pv[op.t])
    [] op.op = "add_named" -> IF op.name < pvi THEN DropName(holes, op.name) ELSE holes \o [i \in 1..(op.name - pvi) |-> pvi + i - 1]
    [] op.op = "pack" -> IF op.force \/ Len(holes) * 10 > pvi THEN <<>> ELSE holes
    [] op.op = "append_self" -> PopN(holes, op.off - op.off + Cardinality(a.vs))
    [] OTHER -> holes

Step(e) ==
  CASE e.k = "begin" ->
         /\ a' = EmptyG /\ crd' = <<>> /\ holes' = <<>> /\ freshv' = 0 /\ pv' = <<>> /\ pvi' = 0 /\ asides' = <<>>
         /\ stats' = [stats EXCEPT !.histories = @ + 1, !.from_default = @ + (IF Has(e, "ctor") /\ e.ctor = "default" THEN 1 ELSE 0)]
         /\ UNCHANGED <<viol, drift>>
    [] e.k = "op" ->
         IF Has(e, "obs_panic") THEN
           viol' = Append(viol, <<l, "NoPanic", "observation">>) /\ UNCHANGED <<a, crd, holes, freshv, pv, pvi, asides, drift, stats>>
         ELSE IF ~(Sane(e.ov) /\ Sane(e.oh)) THEN
           \* names / tags not unique or an edge to an unlisted vertex: nothing below can be evaluated on such an observable
           viol' = Append(viol, <<l, "InvOK", IF Sane(e.ov) THEN "hash" ELSE "vec", e.op.op, "insane">>)
           /\ UNCHANGED <<a, crd, holes, freshv, pv, pvi, asides, drift, stats>>
         ELSE
         LET op == e.op
             m == ModelStep(op)
             \* expected outcome: named insertion fails exactly on a live name; smart insertion panics as the model says
             expect == IF op.op = "add_named" THEN e.rv.res ELSE IF m.panic THEN "panic" ELSE "ok"
             applied == e.rv.res = "ok"
             tv == TagObs(e.ov)
             th == TagObs(e.oh)
             \* operations whose treatment of the conditional scalar factors has a prepared fix: either variant is the model
             a2 == IF applied THEN (IF Has(m, "alt") /\ tv = m.alt THEN m.alt ELSE m.g) ELSE a
             c2 == IF applied THEN m.c ELSE crd
             same == e.rv.res = e.rh.res /\ e.rv.res = expect
             refines == tv = a2 /\ th = a2 /\ TagCrd(e.ov) = c2 /\ TagCrd(e.oh) = c2
             inv1 == InvOK(e.ov)
             inv2 == InvOK(e.oh)
             subok == op.op # "subgraph" \/ ~applied \/
                      (LET sv == TagObs(e.rv.sub)  sh == TagObs(e.rh.sub) IN
                       sv = SubModel(op.ts) /\ sh = SubModel(op.ts) /\ InvOK(e.rv.sub) /\ InvOK(e.rh.sub))
             \* L1: allocator transcription (vector backend: last freed name first, else the table length; hash: fresh counter)
             alloc == op.op \in {"add_vertex", "add_with_data", "add_bnd", "add_vph"}
             predv == IF holes # <<>> THEN Last(holes) ELSE e.ov.vindex - 1
             nameok == ~alloc \/ ~applied \/ (e.rh.name = freshv /\ (holes = HolesUnknown \/ e.rv.name = predv))
             \* --ext
             ext == Has(e.ov, "x")
             invx1 == ~ext \/ InvOKx(e.ov)
             invx2 == ~ext \/ InvOKx(e.oh)
             xsame == ~ext \/ e.ov.x.depth = e.oh.x.depth
             copyok == op.op # "copy" \/ ~applied \/ (CopyOK(op, e.rv.sub) /\ CopyOK(op, e.rh.sub))
             getok == ~(op.op = "mul_sf" /\ Has(e.rv, "gsf")) \/ ~applied \/
                      (\A r \in {e.rv.gsf, e.rh.gsf} : r.has /\ CondOf(r.cond) = OpCond(op) /\ ScFromAbs(r.sc) = a2.sf[OpCond(op)])
             isalg == op.op = "par_alg" /\ applied
             algok == ~isalg \/ (ParAlgOK(e.rv) /\ e.rh = e.rv)
             algsorted == isalg /\ VarsSorted(e.rv.a.vars) /\ VarsSorted(e.rv.b.vars)
             algnf == ~isalg \/ ~(VarsStrict(e.rv.a.vars) /\ VarsStrict(e.rv.b.vars)) \/ VarsStrict(e.rv.sum_ref.vars)
         IN /\ a' = a2 /\ crd' = c2
            /\ viol' = (IF inv1 THEN <<>> ELSE <<<<l, "InvOK", "vec", op.op>>>>) \o (IF inv2 THEN <<>> ELSE <<<<l, "InvOK", "hash", op.op>>>>)
                       \o (IF same THEN <<>> ELSE <<<<l, "SameOutcome", op.op>>>>) \o (IF refines THEN <<>> ELSE <<<<l, "Refines", op.op>>>>)
                       \o (IF subok THEN <<>> ELSE <<<<l, "SubgraphOK">>>>)
                       \o (IF invx1 THEN <<>> ELSE <<<<l, "InvOKx", "vec", op.op>>>>) \o (IF invx2 THEN <<>> ELSE <<<<l, "InvOKx", "hash", op.op>>>>)
                       \o (IF xsame THEN <<>> ELSE <<<<l, "SameAnswers", "depth">>>>)
                       \o (IF copyok THEN <<>> ELSE <<<<l, "CopyOK">>>>) \o (IF getok THEN <<>> ELSE <<<<l, "GetSFOK">>>>)
                       \o (IF algok THEN <<>> ELSE <<<<l, "ParAlgOK">>>>) \o viol
            /\ drift' = (IF nameok THEN <<>> ELSE <<<<l, "AllocatorName", op.op>>>>) \o (IF algnf THEN <<>> ELSE <<<<l, "ParityNormalForm">>>>) \o drift
            /\ holes' = IF applied THEN HolesAfter(op, e.ov) ELSE holes
            /\ pv' = [t \in {e.ov.verts[i].tag : i \in 1..Len(e.ov.verts)} |-> VRec(e.ov, t).name] /\ pvi' = e.ov.vindex
            /\ freshv' = e.oh.vindex
            /\ asides' = IF op.op = "clone_aside" /\ applied THEN Append(asides, <<e.ov, e.oh>>) ELSE asides
            /\ stats' = [stats EXCEPT !.ops = @ + 1, !.nontrivial = @ + (IF a2 # a THEN 1 ELSE 0),
                                      !.packs = @ + (IF op.op = "pack" THEN 1 ELSE 0),
                                      !.names_predicted = @ + (IF alloc /\ applied /\ nameok /\ holes # HolesUnknown THEN 1 ELSE 0),
                                      !.xobs = @ + (IF ext THEN 2 ELSE 0),
                                      !.ext_ops = @ + (IF op.op \in XOps \/ Has(op, "pc") THEN 1 ELSE 0),
                                      !.plugs = @ + (IF op.op = "plug_x" /\ applied /\ Len(op.other.ins) > 0 THEN 1 ELSE 0),
                                      !.par_algs = @ + (IF isalg THEN 1 ELSE 0),
                                      !.par_unsorted = @ + (IF isalg /\ ~algsorted THEN 1 ELSE 0),
                                      !.par_unsorted_wrong = @ + (IF isalg /\ ~algsorted /\ ~ParSumOK(e.rv) THEN 1 ELSE 0)]
    [] e.k = "aside" ->
         /\ viol' = IF e.i <= Len(asides) /\ asides[e.i] = <<e.ov, e.oh>> THEN viol ELSE Append(viol, <<l, "CloneIndependent">>)
         /\ UNCHANGED <<a, crd, holes, freshv, pv, pvi, asides, drift, stats>>
Next == \/ /\ l <= NLines /\ Step(Rec[l]) /\ l' = l + 1
        \/ /\ l = NLines + 1 /\ Report(l, viol, drift, stats) /\ l' = l + 1
           /\ UNCHANGED <<a, crd, holes, freshv, pv, pvi, asides, viol, drift, stats>>
=============================================================================
