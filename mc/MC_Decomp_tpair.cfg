CONSTANTS K = 4
TPH = {1, 7}
SHAPE = "tpair"
NB = 0
HUBPH = {0}
EXTRA = FALSE
CANDMAX = 4
ALLORD = TRUE
INIT Init
NEXT Next
INVARIANT StepSumOK
CHECK_DEADLOCK FALSE
