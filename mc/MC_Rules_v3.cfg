CONSTANTS K = 3
TYS = {"Z"}
PHS = {0,1,4}
ETS = {"H"}
NB = 1
VARS = {0}
BB = FALSE
INIT Init
NEXT Next
INVARIANT Sound
INVARIANT NoPanicInv
INVARIANT StaysWF
CHECK_DEADLOCK FALSE
