CONSTANTS NQ = 3
MAXLEN = 2
ONEQ = {"T", "Sdg", "NOT", "HAD"}
TWOQ = {"CNOT", "XCX", "SWAP"}
PHS = {3}
THREEQ = {"CCZ", "TOFF"}
PPQ <- PPQ_3
INIT Init
NEXT Next
INVARIANT AdjointInverts
INVARIANT AdjointInvolutive
INVARIANT BasicPreserves
INVARIANT BasicCount
INVARIANT ConcatComposes
CHECK_DEADLOCK FALSE
