---------------------------- MODULE Trace_Scalar ----------------------------
(* C07: validation of recorded operation histories on Dyadic and Scalar4 registers.
   Every register carries the STORED value the code produced (raw sign / mantissa / exponent / approx)
   and a GHOST: the mathematically exact value of the expression that produced it, recomputed by TLC
   with arbitrary-precision arithmetic (spec/BigNat, spec/Dyadic).  Per operation:
     Normalised   the stored result is in normal form (top mantissa bit set, or canonical zero)
     Sticky       approx(a) \/ approx(b) => approx(result); values from floats are flagged approximate
     Honest       ~approx(result) => stored value = exact value of the ghost expression
     OrdOK / AbsDiffEqOK / TestsOK   cmp, ==, abs_diff_eq, is_zero, is_one agree with the stored values
     ViewOK       val_and_exp / val / exp present the stored value (sign included)
     ToF64OK      f64::try_from(d) is within 10^-12 relative of the stored value, sign included
     ComplexValueOK  complex_value() is within 10^-12 of the stored value relative to its largest coefficient
     ExactPhaseOK exact_phase_and_sqrt2_pow answers Some(k, p) exactly for exact values of the form w^k sqrt2^p *)
EXTENDS TraceLib, Dyadic
VARIABLES l, mach, dst, dgh, sst, sgh, viol, drift, stats
vars == <<l, mach, dst, dgh, sst, sgh, viol, drift, stats>>
ZeroD == [neg |-> FALSE, m |-> <<>>, e |-> 0, ap |-> FALSE]
Init == l = 1 /\ mach = "none" /\ dst = <<>> /\ dgh = <<>> /\ sst = <<>> /\ sgh = <<>> /\ viol = <<>> /\ drift = <<>>
        /\ stats = [histories |-> 0, dops |-> 0, sops |-> 0, nontrivial |-> 0, exact_results |-> 0, approx_results |-> 0]
V(ok, name, op) == IF ok THEN <<>> ELSE <<<<l, name, op>>>>
D(j) == [neg |-> j.neg, m |-> BNorm(j.m), e |-> j.e, ap |-> j.ap]
IntX(j) == XNorm([neg |-> j.neg, m |-> j.m, e |-> 0])
S4(js) == [i \in 1..4 |-> D(js[i])]

\* phase n/d: exact when 4 % d = 0
PhExact(ph) == 4 % ph[2] = 0
PhUnits(ph) == (((ph[1] * (4 \div ph[2])) % 8) + 8) % 8

\* conversions are only required inside the range where doubles exist (the property excludes exponent overflow)
InRange(v) == XIsZero(v) \/ (v.e + BBitLen(v.m) \in -900..900)
DStep(e) ==
  IF e.res = "panic" THEN
    viol' = Append(viol, <<l, "NoPanic", e.op>>) /\ stats' = [stats EXCEPT !.dops = @ + 1] /\ UNCHANGED <<dst, dgh>>
  ELSE
  CASE e.op = "new" ->
         LET out == D(e.out)  g == XShift(IntX(e.v), e.exp) IN
         /\ viol' = V(Normalised(out), "Normalised", e.op) \o V(~out.ap /\ Val(out) = g, "Honest", e.op) \o viol
         /\ dst' = [dst EXCEPT ![e.r] = out] /\ dgh' = [dgh EXCEPT ![e.r] = g]
         /\ stats' = [stats EXCEPT !.dops = @ + 1, !.nontrivial = @ + 1, !.exact_results = @ + 1]
    [] e.op = "from_f64" ->
         LET out == D(e.out)  g == FVal(e.f) IN
         \* a double is a dyadic rational: the conversion is lossless, and flagged approximate
         /\ viol' = V(Normalised(out), "Normalised", e.op) \o V(Val(out) = g, "FromF64Lossless", e.op) \o V(out.ap \/ XIsZero(g), "FloatIsApprox", e.op) \o viol
         /\ dst' = [dst EXCEPT ![e.r] = out] /\ dgh' = [dgh EXCEPT ![e.r] = g]
         /\ stats' = [stats EXCEPT !.dops = @ + 1, !.nontrivial = @ + 1, !.approx_results = @ + 1]
    [] e.op \in {"add", "sub", "mul", "neg"} ->
         LET out == D(e.out)
             a == dst[e.a]
             b == IF e.op = "neg" THEN ZeroD ELSE dst[e.b]
             g == CASE e.op = "add" -> XAdd(dgh[e.a], dgh[e.b]) [] e.op = "sub" -> XSub(dgh[e.a], dgh[e.b])
                    [] e.op = "mul" -> XMul(dgh[e.a], dgh[e.b]) [] OTHER -> XNeg(dgh[e.a])
         IN /\ viol' = V(Normalised(out), "Normalised", e.op) \o V(Honest(out, g), "Honest", e.op) \o viol
            /\ drift' = IF Sticky(<<a, b>>, out) THEN drift ELSE Append(drift, <<l, "NotSticky", e.op>>)
            /\ dst' = [dst EXCEPT ![e.r] = out] /\ dgh' = [dgh EXCEPT ![e.r] = g]
            /\ stats' = [stats EXCEPT !.dops = @ + 1, !.nontrivial = @ + 1, !.exact_results = @ + (IF out.ap THEN 0 ELSE 1),
                                      !.approx_results = @ + (IF out.ap THEN 1 ELSE 0)]
    [] e.op = "cmp" ->
         /\ viol' = V(OrdOK(dst[e.a], dst[e.b], e.ret), "OrdOK", e.op)
                    \o V(e.eq => XCmp(Val(dst[e.a]), Val(dst[e.b])) = 0, "EqOK", e.op) \o viol
         /\ stats' = [stats EXCEPT !.dops = @ + 1] /\ UNCHANGED <<dst, dgh>>
    [] e.op = "abs_diff_eq" ->
         /\ viol' = V(AbsDiffEqOK(dst[e.a], dst[e.b], e.ret), "AbsDiffEqOK", e.op) \o viol
         /\ stats' = [stats EXCEPT !.dops = @ + 1] /\ UNCHANGED <<dst, dgh>>
    [] e.op = "is_zero" ->
         /\ viol' = V(e.ret = XIsZero(Val(dst[e.a])), "TestsOK", e.op) \o viol
         /\ stats' = [stats EXCEPT !.dops = @ + 1] /\ UNCHANGED <<dst, dgh>>
    [] e.op = "to_f64" ->
         LET v == Val(dst[e.a]) IN
         /\ viol' = (IF e.res = "ok" /\ InRange(v) THEN V(e.f.fin /\ CloseTo(FVal(e.f), v, v), "ToF64OK", e.op) ELSE <<>>) \o viol
         /\ stats' = [stats EXCEPT !.dops = @ + 1, !.nontrivial = @ + 1] /\ UNCHANGED <<dst, dgh>>
    [] e.op = "val_and_exp" ->
         \* the signed view is only defined when the odd part of the mantissa fits 63 bits
         LET v == Val(dst[e.a])
             fits == BBitLen(v.m) <= 63 IN
         /\ viol' = (IF fits THEN V(XShift(IntX(e.val), e.exp) = v /\ e.consistent, "ViewOK", e.op) ELSE <<>>) \o viol
         /\ drift' = IF fits THEN drift ELSE Append(drift, <<l, "ViewOfFullWidthMantissa">>)
         /\ stats' = [stats EXCEPT !.dops = @ + 1] /\ UNCHANGED <<dst, dgh>>

SStep(e) ==
  IF e.res = "panic" THEN
    viol' = Append(viol, <<l, "NoPanic", e.op>>) /\ stats' = [stats EXCEPT !.sops = @ + 1] /\ UNCHANGED <<sst, sgh>>
  ELSE
  CASE e.op \in {"new", "from_phase", "real", "complex", "add", "sub", "mul", "conj", "mul_sqrt2_pow", "mul_phase", "one_plus_phase"} ->
         LET out == S4(e.out)
             exactLeaf == e.op = "new" \/ (e.op \in {"from_phase", "one_plus_phase"} /\ PhExact(e.ph))
             floatLeaf == e.op \in {"real", "complex"} \/ (e.op \in {"from_phase", "one_plus_phase"} /\ ~PhExact(e.ph))
             g == CASE e.op = "new" -> [i \in 1..4 |-> XShift(IntX(e.coeffs[i]), e.pow)]
                    [] e.op = "from_phase" -> IF PhExact(e.ph) THEN S4Omega(PhUnits(e.ph)) ELSE S4Vals(out)
                    [] e.op = "one_plus_phase" -> IF PhExact(e.ph) THEN S4Add(S4One, S4Omega(PhUnits(e.ph))) ELSE S4Vals(out)
                    [] e.op = "real" -> <<FVal(e.f[1]), XZero, XZero, XZero>>
                    [] e.op = "complex" -> <<FVal(e.f[1]), XZero, FVal(e.f[2]), XZero>>
                    [] e.op = "add" -> S4Add(sgh[e.a], sgh[e.b])
                    [] e.op = "sub" -> S4Sub(sgh[e.a], sgh[e.b])
                    [] e.op = "mul" -> S4Mul(sgh[e.a], sgh[e.b])
                    [] e.op = "conj" -> S4Conj(sgh[e.a])
                    [] e.op = "mul_sqrt2_pow" -> S4Mul(sgh[e.a], S4Sqrt2Pow(e.p))
                    [] e.op = "mul_phase" -> IF PhExact(e.ph) THEN S4Mul(sgh[e.a], S4Omega(PhUnits(e.ph))) ELSE S4Vals(out)
             ins == CASE e.op \in {"add", "sub", "mul"} -> <<sst[e.a], sst[e.b]>>
                      [] e.op \in {"conj", "mul_sqrt2_pow", "mul_phase"} -> <<sst[e.a]>>
                      [] OTHER -> <<>>
             sticky == (\E k \in 1..Len(ins) : S4Approx(ins[k])) => S4Approx(out)
             \* a factor that is not a multiple of pi/4 is a float: the result must be flagged
             floaty == (e.op = "mul_phase" /\ ~PhExact(e.ph) /\ ~S4IsZero(S4Vals(sst[e.a]))) => S4Approx(out)
             honest == ~S4Approx(out) => S4Vals(out) = g
         IN /\ viol' = V(\A i \in 1..4 : Normalised(out[i]), "Normalised", e.op) \o V(floaty, "FloatFactorIsApprox", e.op)
                       \o V(honest, "Honest", e.op) \o V(floatLeaf => (S4Approx(out) \/ S4IsZero(S4Vals(out))), "FloatIsApprox", e.op)
                       \o V(e.op \notin {"real", "complex"} \/ S4Vals(out) = g, "FromF64Lossless", e.op) \o viol
            /\ drift' = IF sticky THEN drift ELSE Append(drift, <<l, "NotSticky", e.op>>)
            /\ sst' = [sst EXCEPT ![e.r] = out] /\ sgh' = [sgh EXCEPT ![e.r] = g]
            /\ stats' = [stats EXCEPT !.sops = @ + 1, !.nontrivial = @ + 1, !.exact_results = @ + (IF S4Approx(out) THEN 0 ELSE 1),
                                      !.approx_results = @ + (IF S4Approx(out) THEN 1 ELSE 0)]
    [] e.op = "tests" ->
         LET va == S4Vals(sst[e.a])  vb == S4Vals(sst[e.b]) IN
         /\ viol' = V(e.is_zero = S4IsZero(va), "TestsOK", "is_zero")
                    \o V(e.is_one => va = S4One, "TestsOK", "is_one") \o V((va = S4One /\ ~S4Approx(sst[e.a])) => e.is_one, "TestsOK", "is_one_exact")
                    \o V(e.eq => va = vb, "TestsOK", "eq") \o V((va = vb /\ ~S4Approx(sst[e.a]) /\ ~S4Approx(sst[e.b])) => e.eq, "TestsOK", "eq_exact") \o viol
         /\ stats' = [stats EXCEPT !.sops = @ + 1] /\ UNCHANGED <<sst, sgh>>
    [] e.op = "exact_phase" ->
         LET s == sst[e.a]
             want == S4ExactPhasePow(S4Vals(s)) IN
         \* for exact scalars the answer is decided by the value; a Some answer must always be true of the stored value
         /\ viol' = V((~S4Approx(s) => (e.ret = "some") = want[1]) /\ (e.ret = "some" => (want[1] /\ e.whole /\ e.kk = want[2] /\ e.pp = want[3])), "ExactPhaseOK", e.op) \o viol
         /\ stats' = [stats EXCEPT !.sops = @ + 1, !.nontrivial = @ + 1] /\ UNCHANGED <<sst, sgh>>
    [] e.op = "complex_value" ->
         /\ viol' = (IF \A i \in 1..4 : InRange(Val(sst[e.a][i]))
                     THEN V(e.re.fin /\ e.im.fin /\ ComplexValueOK(FVal(e.re), FVal(e.im), sst[e.a]), "ComplexValueOK", e.op)
                          \o V(e.roundtrip, "FloatRoundTrip", e.op)
                     ELSE <<>>) \o viol
         /\ stats' = [stats EXCEPT !.sops = @ + 1, !.nontrivial = @ + 1] /\ UNCHANGED <<sst, sgh>>

Step(e) ==
  CASE e.k = "begin" ->
         /\ mach' = e.machine
         /\ dst' = [i \in 1..e.regs |-> ZeroD] /\ dgh' = [i \in 1..e.regs |-> XZero]
         /\ sst' = [i \in 1..e.regs |-> <<ZeroD, ZeroD, ZeroD, ZeroD>>] /\ sgh' = [i \in 1..e.regs |-> S4Zero]
         /\ stats' = [stats EXCEPT !.histories = @ + 1] /\ UNCHANGED <<viol, drift>>
    [] e.k = "d" -> DStep(e) /\ UNCHANGED <<mach, sst, sgh>>
                    /\ ((e.res # "panic" /\ e.op \in {"val_and_exp", "add", "sub", "mul", "neg"}) \/ UNCHANGED drift)
    [] e.k = "s" -> SStep(e) /\ UNCHANGED <<mach, dst, dgh>>
                    /\ ((e.res # "panic" /\ e.op \in {"new", "from_phase", "real", "complex", "add", "sub", "mul", "conj", "mul_sqrt2_pow", "mul_phase", "one_plus_phase"}) \/ UNCHANGED drift)
Next == \/ /\ l <= NLines /\ Step(Rec[l]) /\ l' = l + 1
        \/ /\ l = NLines + 1 /\ Report(l, viol, drift, stats) /\ l' = l + 1
           /\ UNCHANGED <<mach, dst, dgh, sst, sgh, viol, drift, stats>>
=============================================================================
