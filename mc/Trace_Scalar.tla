---------------------------- MODULE Trace_Scalar ----------------------------
(* C07: validation of recorded operation histories on Dyadic and Scalar4 registers.
   Every register carries the STORED value the code produced (raw sign / mantissa / exponent / approx)
   and a GHOST: the mathematically exact value of the expression that produced it, recomputed by TLC
   with arbitrary-precision arithmetic (spec/BigNat, spec/Dyadic).  Per operation:
     Normalised   the stored result is in normal form (top mantissa bit set, or canonical zero)
     Sticky       approx(a) \/ approx(b) => approx(result); values from floats are flagged approximate
     Honest       ~approx(result) => stored value = exact value of the ghost expression
     OrdOK / AbsDiffEqOK / TestsOK   cmp, partial_cmp, < <= > >=, ==, abs_diff_eq, is_zero, is_one agree with the stored values
     ViewOK       val_and_exp / val / exp present the stored value (sign included)
     ToF64OK      f64::try_from(d) is within 10^-12 relative of the stored value, sign included (and is Ok inside the range of doubles)
     ComplexValueOK  complex_value() (TryFrom<&Scalar4>) AND the owned TryFrom<Scalar4> are within 10^-12 of the stored value
                  relative to its largest coefficient, and neither fails inside the range of doubles
     ExactPhaseOK exact_phase_and_sqrt2_pow answers Some(k, p) exactly for exact values of the form w^k sqrt2^p
     VariantOK    a binary operation computed through any of its overloads (`form`: reference operands, += -= *= with owned
                  or reference right-hand sides, Sum, Product; Dyadic: += -= *=) is bit for bit (value and flags) what the
                  owned operator returns (`own`); `out` itself is judged by Normalised / Honest like every result
     ApproxAccessorOK  the PUBLIC accessors agree with the raw flags: Scalar4::approx() = some coefficient is flagged,
                  set_approx(f) sets exactly the flag of every coefficient (nothing else changes) and approx() then returns f;
                  Dyadic::approx()/sign() = the raw flags.  A value whose flag was CLEARED by the caller is from then on
                  treated as an exact constant (its ghost becomes the stored value)
     AbsDiffEq4OK Scalar4's abs_diff_eq (epsilon 10^-10) is symmetric, TRUE when the exact values are within 2^-34 and FALSE when
                  they are further apart than 2^-32 in a component (coefficients <= 4; see spec/Dyadic.tla for the band)
   Constructors From<i64>, From<[i64;4]>, From<f64>, From<[f64;4]>, Default, minus_one, sqrt2 / one_over_sqrt2 / sqrt2_pow and
   mul_one_plus_phase are value-producing operations judged by Normalised / Honest / FromF64Lossless / FloatIsApprox against their ghosts.
   Display / Debug are executed and counted (stats.displays, display_panics): the property fixes no text format.
   `extreme` histories draw their constants around 2^+-820, the edge of the range where doubles exist. *)
EXTENDS TraceLib, Dyadic
VARIABLES l, mach, dst, dgh, sst, sgh, viol, drift, stats
vars == <<l, mach, dst, dgh, sst, sgh, viol, drift, stats>>
ZeroD == [neg |-> FALSE, m |-> <<>>, e |-> 0, ap |-> FALSE]
Init == l = 1 /\ mach = "none" /\ dst = <<>> /\ dgh = <<>> /\ sst = <<>> /\ sgh = <<>> /\ viol = <<>> /\ drift = <<>>
        /\ stats = [histories |-> 0, extreme_histories |-> 0, dops |-> 0, sops |-> 0, nontrivial |-> 0, exact_results |-> 0, approx_results |-> 0,
                    variants |-> 0, accessor_ops |-> 0, conv_judged |-> 0, conv_out_of_range |-> 0, adeq4 |-> 0, adeq4_judged |-> 0,
                    adeq4_true |-> 0, displays |-> 0, display_panics |-> 0]
V(ok, name, op) == IF ok THEN <<>> ELSE <<<<l, name, op>>>>
B2I(b) == IF b THEN 1 ELSE 0
D(j) == [neg |-> j.neg, m |-> BNorm(j.m), e |-> j.e, ap |-> j.ap]
IntX(j) == XNorm([neg |-> j.neg, m |-> j.m, e |-> 0])
S4(js) == [i \in 1..4 |-> D(js[i])]
\* an overload's result against the owned operator's, bit for bit (the raw records as logged)
VariantOK(e) == Has(e, "own") => e.out = e.own
IsVariant(e) == Has(e, "form") /\ e.form \notin {"own", "own_own"}

\* phase n/d: exact when 4 % d = 0
PhExact(ph) == 4 % ph[2] = 0
PhUnits(ph) == (((ph[1] * (4 \div ph[2])) % 8) + 8) % 8

\* conversions are only required inside the range where doubles exist (the property excludes exponent overflow)
InRange(v) == XIsZero(v) \/ (v.e + BBitLen(v.m) \in -900..900)
\* the complex conversion also converts the difference / sum of two coefficients, which can be 2^-63 of them: a little more room below
CInRange(v) == XIsZero(v) \/ (v.e + BBitLen(v.m) \in -890..900)
DStep(e) ==
  IF e.res = "panic" /\ e.op # "display" THEN
    viol' = Append(viol, <<l, "NoPanic", e.op>>) /\ stats' = [stats EXCEPT !.dops = @ + 1] /\ UNCHANGED <<dst, dgh>>
  ELSE
  CASE e.op = "new" ->
         LET out == D(e.out)  g == XShift(IntX(e.v), e.exp) IN
         /\ viol' = V(Normalised(out), "Normalised", e.op) \o V(~out.ap /\ Val(out) = g, "Honest", e.op) \o viol
         /\ dst' = [dst EXCEPT ![e.r] = out] /\ dgh' = [dgh EXCEPT ![e.r] = g]
         /\ stats' = [stats EXCEPT !.dops = @ + 1, !.nontrivial = @ + 1, !.exact_results = @ + 1]
    [] e.op = "from_f64" ->
         LET out == D(e.out)  g == FVal(e.f) IN
         \* a double is a dyadic rational: the conversion is lossless, and flagged approximate
         /\ viol' = V(Normalised(out), "Normalised", e.op) \o V(Val(out) = g, "FromF64Lossless", e.op) \o V(out.ap \/ XIsZero(g), "FloatIsApprox", e.op) \o viol
         /\ dst' = [dst EXCEPT ![e.r] = out] /\ dgh' = [dgh EXCEPT ![e.r] = g]
         /\ stats' = [stats EXCEPT !.dops = @ + 1, !.nontrivial = @ + 1, !.approx_results = @ + 1]
    [] e.op \in {"add", "sub", "mul", "neg", "abs"} ->
         LET out == D(e.out)
             a == dst[e.a]
             b == IF e.op \in {"neg", "abs"} THEN ZeroD ELSE dst[e.b]
             g == CASE e.op = "add" -> XAdd(dgh[e.a], dgh[e.b]) [] e.op = "sub" -> XSub(dgh[e.a], dgh[e.b])
                    [] e.op = "mul" -> XMul(dgh[e.a], dgh[e.b]) [] e.op = "abs" -> XAbs(dgh[e.a]) [] OTHER -> XNeg(dgh[e.a])
             \* abs only clears the sign of the stored value
             absok == e.op = "abs" => (Val(out) = XAbs(Val(a)) /\ out.ap = a.ap)
         IN /\ viol' = V(Normalised(out), "Normalised", e.op) \o V(Honest(out, g), "Honest", e.op) \o V(VariantOK(e), "VariantOK", e.op)
                       \o V(absok, "AbsOK", e.op) \o viol
            /\ drift' = IF Sticky(<<a, b>>, out) THEN drift ELSE Append(drift, <<l, "NotSticky", e.op>>)
            /\ dst' = [dst EXCEPT ![e.r] = out] /\ dgh' = [dgh EXCEPT ![e.r] = g]
            /\ stats' = [stats EXCEPT !.dops = @ + 1, !.nontrivial = @ + 1, !.exact_results = @ + (IF out.ap THEN 0 ELSE 1),
                                      !.approx_results = @ + (IF out.ap THEN 1 ELSE 0), !.variants = @ + B2I(IsVariant(e))]
    [] e.op = "set_approx" ->
         LET out == D(e.out) IN
         /\ viol' = V(out = [dst[e.a] EXCEPT !.ap = e.flag] /\ e.pub_ap = e.flag, "ApproxAccessorOK", e.op) \o viol
         /\ dst' = [dst EXCEPT ![e.r] = out] /\ dgh' = [dgh EXCEPT ![e.r] = IF e.flag THEN dgh[e.a] ELSE Val(out)]
         /\ stats' = [stats EXCEPT !.dops = @ + 1, !.accessor_ops = @ + 1, !.nontrivial = @ + 1]
    [] e.op = "flags" ->
         /\ viol' = V(e.approx = dst[e.a].ap /\ e.sign = dst[e.a].neg, "ApproxAccessorOK", e.op) \o viol
         /\ stats' = [stats EXCEPT !.dops = @ + 1, !.accessor_ops = @ + 1] /\ UNCHANGED <<dst, dgh>>
    [] e.op = "display" ->
         /\ stats' = [stats EXCEPT !.dops = @ + 1, !.displays = @ + 1, !.display_panics = @ + B2I(e.res = "panic")]
         /\ UNCHANGED <<dst, dgh, viol>>
    [] e.op = "cmp" ->
         LET c == XCmp(Val(dst[e.a]), Val(dst[e.b])) IN
         /\ viol' = V(OrdOK(dst[e.a], dst[e.b], e.ret), "OrdOK", e.op)
                    \o V(Has(e, "lt") => (e.partial = c /\ e.lt = (c < 0) /\ e.le = (c <= 0) /\ e.gt = (c > 0) /\ e.ge = (c >= 0)), "OrdOK", "partial_ord")
                    \o V(e.eq => c = 0, "EqOK", e.op) \o viol
         /\ stats' = [stats EXCEPT !.dops = @ + 1] /\ UNCHANGED <<dst, dgh>>
    [] e.op = "abs_diff_eq" ->
         /\ viol' = V(AbsDiffEqOK(dst[e.a], dst[e.b], e.ret), "AbsDiffEqOK", e.op) \o viol
         /\ stats' = [stats EXCEPT !.dops = @ + 1] /\ UNCHANGED <<dst, dgh>>
    [] e.op = "is_zero" ->
         /\ viol' = V(e.ret = XIsZero(Val(dst[e.a])), "TestsOK", e.op) \o viol
         /\ stats' = [stats EXCEPT !.dops = @ + 1] /\ UNCHANGED <<dst, dgh>>
    [] e.op = "to_f64" ->
         LET v == Val(dst[e.a]) IN
         /\ viol' = (IF InRange(v) THEN V(e.res = "ok" /\ e.f.fin /\ CloseTo(FVal(e.f), v, v), "ToF64OK", e.op) ELSE <<>>) \o viol
         /\ stats' = [stats EXCEPT !.dops = @ + 1, !.nontrivial = @ + 1, !.conv_judged = @ + B2I(InRange(v)), !.conv_out_of_range = @ + B2I(~InRange(v))]
         /\ UNCHANGED <<dst, dgh>>
    [] e.op = "val_and_exp" ->
         \* the signed view is only defined when the odd part of the mantissa fits 63 bits
         LET v == Val(dst[e.a])
             fits == BBitLen(v.m) <= 63 IN
         /\ viol' = (IF fits THEN V(XShift(IntX(e.val), e.exp) = v /\ e.consistent, "ViewOK", e.op) ELSE <<>>) \o viol
         /\ drift' = IF fits THEN drift ELSE Append(drift, <<l, "ViewOfFullWidthMantissa">>)
         /\ stats' = [stats EXCEPT !.dops = @ + 1] /\ UNCHANGED <<dst, dgh>>

\* operations of the Scalar4 machine that produce a value for register e.r
SValueOps == {"new", "from_phase", "real", "complex", "add", "sub", "mul", "conj", "mul_sqrt2_pow", "mul_phase", "one_plus_phase",
              "from_i64", "from_i64x4", "from_f64", "from_f64x4", "default", "minus_one", "sqrt2_pow", "sum", "product", "mul_one_plus_phase"}
SStep(e) ==
  IF e.res = "panic" /\ e.op \notin {"complex_value", "abs_diff_eq4", "display"} THEN
    viol' = Append(viol, <<l, "NoPanic", e.op>>) /\ stats' = [stats EXCEPT !.sops = @ + 1] /\ UNCHANGED <<sst, sgh>>
  ELSE
  CASE e.op \in SValueOps ->
         LET out == S4(e.out)
             floatLeaf == e.op \in {"real", "complex", "from_f64", "from_f64x4"} \/ (e.op \in {"from_phase", "one_plus_phase"} /\ ~PhExact(e.ph))
             g == CASE e.op = "new" -> [i \in 1..4 |-> XShift(IntX(e.coeffs[i]), e.pow)]
                    [] e.op = "from_i64" -> <<IntX(e.coeffs[1]), XZero, XZero, XZero>>
                    [] e.op = "from_i64x4" -> [i \in 1..4 |-> IntX(e.coeffs[i])]
                    [] e.op = "default" -> S4Zero
                    [] e.op = "minus_one" -> S4Omega(4)
                    [] e.op = "sqrt2_pow" -> S4Sqrt2Pow(e.p)
                    [] e.op = "from_phase" -> IF PhExact(e.ph) THEN S4Omega(PhUnits(e.ph)) ELSE S4Vals(out)
                    [] e.op = "one_plus_phase" -> IF PhExact(e.ph) THEN S4Add(S4One, S4Omega(PhUnits(e.ph))) ELSE S4Vals(out)
                    [] e.op \in {"real", "from_f64"} -> <<FVal(e.f[1]), XZero, XZero, XZero>>
                    [] e.op = "complex" -> <<FVal(e.f[1]), XZero, FVal(e.f[2]), XZero>>
                    [] e.op = "from_f64x4" -> [i \in 1..4 |-> FVal(e.f[i])]
                    [] e.op = "add" -> S4Add(sgh[e.a], sgh[e.b])
                    [] e.op = "sub" -> S4Sub(sgh[e.a], sgh[e.b])
                    [] e.op = "mul" -> S4Mul(sgh[e.a], sgh[e.b])
                    [] e.op = "sum" -> S4SumSeq([k \in 1..Len(e.ids) |-> sgh[e.ids[k]]])
                    [] e.op = "product" -> S4ProdSeq([k \in 1..Len(e.ids) |-> sgh[e.ids[k]]])
                    [] e.op = "conj" -> S4Conj(sgh[e.a])
                    [] e.op = "mul_sqrt2_pow" -> S4Mul(sgh[e.a], S4Sqrt2Pow(e.p))
                    [] e.op = "mul_phase" -> IF PhExact(e.ph) THEN S4Mul(sgh[e.a], S4Omega(PhUnits(e.ph))) ELSE S4Vals(out)
                    [] e.op = "mul_one_plus_phase" -> IF PhExact(e.ph) THEN S4Mul(sgh[e.a], S4Add(S4One, S4Omega(PhUnits(e.ph)))) ELSE S4Vals(out)
             ins == CASE e.op \in {"add", "sub", "mul"} -> <<sst[e.a], sst[e.b]>>
                      [] e.op \in {"conj", "mul_sqrt2_pow", "mul_phase", "mul_one_plus_phase"} -> <<sst[e.a]>>
                      [] e.op \in {"sum", "product"} -> [k \in 1..Len(e.ids) |-> sst[e.ids[k]]]
                      [] OTHER -> <<>>
             sticky == (\E k \in 1..Len(ins) : S4Approx(ins[k])) => S4Approx(out)
             \* a factor that is not a multiple of pi/4 is a float: the result must be flagged
             floaty == (e.op \in {"mul_phase", "mul_one_plus_phase"} /\ ~PhExact(e.ph) /\ ~S4IsZero(S4Vals(sst[e.a]))) => S4Approx(out)
             honest == ~S4Approx(out) => S4Vals(out) = g
         IN /\ viol' = V(\A i \in 1..4 : Normalised(out[i]), "Normalised", e.op) \o V(floaty, "FloatFactorIsApprox", e.op)
                       \o V(honest, "Honest", e.op) \o V(floatLeaf => (S4Approx(out) \/ S4IsZero(S4Vals(out))), "FloatIsApprox", e.op)
                       \o V(e.op \notin {"real", "complex", "from_f64", "from_f64x4"} \/ S4Vals(out) = g, "FromF64Lossless", e.op)
                       \o V(VariantOK(e), "VariantOK", e.op) \o viol
            /\ drift' = IF sticky THEN drift ELSE Append(drift, <<l, "NotSticky", e.op>>)
            /\ sst' = [sst EXCEPT ![e.r] = out] /\ sgh' = [sgh EXCEPT ![e.r] = g]
            /\ stats' = [stats EXCEPT !.sops = @ + 1, !.nontrivial = @ + 1, !.exact_results = @ + (IF S4Approx(out) THEN 0 ELSE 1),
                                      !.approx_results = @ + (IF S4Approx(out) THEN 1 ELSE 0),
                                      !.variants = @ + B2I(IsVariant(e) \/ e.op \in {"sum", "product"})]
    [] e.op = "set_approx" ->
         LET out == S4(e.out) IN
         /\ viol' = V(out = [i \in 1..4 |-> [sst[e.a][i] EXCEPT !.ap = e.flag]] /\ e.pub_ap = e.flag, "ApproxAccessorOK", e.op) \o viol
         /\ sst' = [sst EXCEPT ![e.r] = out] /\ sgh' = [sgh EXCEPT ![e.r] = IF e.flag THEN sgh[e.a] ELSE S4Vals(out)]
         /\ stats' = [stats EXCEPT !.sops = @ + 1, !.accessor_ops = @ + 1, !.nontrivial = @ + 1]
    [] e.op = "tests" ->
         LET va == S4Vals(sst[e.a])  vb == S4Vals(sst[e.b]) IN
         /\ viol' = V(e.is_zero = S4IsZero(va), "TestsOK", "is_zero")
                    \o V(e.is_one => va = S4One, "TestsOK", "is_one") \o V((va = S4One /\ ~S4Approx(sst[e.a])) => e.is_one, "TestsOK", "is_one_exact")
                    \o V(e.eq => va = vb, "TestsOK", "eq") \o V((va = vb /\ ~S4Approx(sst[e.a]) /\ ~S4Approx(sst[e.b])) => e.eq, "TestsOK", "eq_exact")
                    \o V(Has(e, "approx") => e.approx = S4Approx(sst[e.a]), "ApproxAccessorOK", "approx") \o viol
         /\ stats' = [stats EXCEPT !.sops = @ + 1, !.accessor_ops = @ + B2I(Has(e, "approx"))] /\ UNCHANGED <<sst, sgh>>
    [] e.op = "exact_phase" ->
         LET s == sst[e.a]
             want == S4ExactPhasePow(S4Vals(s)) IN
         \* for exact scalars the answer is decided by the value; a Some answer must always be true of the stored value
         /\ viol' = V((~S4Approx(s) => (e.ret = "some") = want[1]) /\ (e.ret = "some" => (want[1] /\ e.whole /\ e.kk = want[2] /\ e.pp = want[3])), "ExactPhaseOK", e.op) \o viol
         /\ stats' = [stats EXCEPT !.sops = @ + 1, !.nontrivial = @ + 1] /\ UNCHANGED <<sst, sgh>>
    [] e.op = "complex_value" ->
         LET inr == \A i \in 1..4 : CInRange(Val(sst[e.a][i]))
             own == Has(e, "owned") IN
         \* inside the range of doubles neither conversion may fail (complex_value() panics on the error the TryFrom impls return)
         /\ viol' = (IF inr
                     THEN V(e.res = "ok" /\ e.re.fin /\ e.im.fin /\ ComplexValueOK(FVal(e.re), FVal(e.im), sst[e.a]), "ComplexValueOK", e.op)
                          \o V(e.res = "ok" => e.roundtrip, "FloatRoundTrip", e.op)
                          \o V(own => (e.owned = "ok" /\ e.re2.fin /\ e.im2.fin /\ ComplexValueOK(FVal(e.re2), FVal(e.im2), sst[e.a])), "ComplexValueOK", "owned_try_from")
                     ELSE <<>>) \o viol
         /\ drift' = IF own /\ e.res = "ok" /\ e.owned = "ok" /\ (e.re # e.re2 \/ e.im # e.im2) THEN Append(drift, <<l, "OwnedConversionDiffers">>) ELSE drift
         /\ stats' = [stats EXCEPT !.sops = @ + 1, !.nontrivial = @ + 1, !.conv_judged = @ + B2I(inr), !.conv_out_of_range = @ + B2I(~inr)]
         /\ UNCHANGED <<sst, sgh>>
    [] e.op = "abs_diff_eq4" ->
         LET x == S4(e.x)  y == S4(e.y)
             vx == S4Vals(x)  vy == S4Vals(y)
             \* coefficients of at most 4 that are not below the range of doubles either (abs_diff_eq unwraps the conversion)
             judged == AbsDiffEq4Judged(vx, vy) /\ \A i \in 1..4 : CInRange(vx[i]) /\ CInRange(vy[i]) IN
         \* such operands convert without error: no panic, and the answer is determined outside the band
         /\ viol' = (IF judged THEN V(e.res = "ok", "NoPanic", e.op) \o V(e.res = "ok" => AbsDiffEq4OK(vx, vy, e.ret, e.rev), "AbsDiffEq4OK", e.op) ELSE <<>>) \o viol
         /\ stats' = [stats EXCEPT !.sops = @ + 1, !.adeq4 = @ + 1, !.adeq4_judged = @ + B2I(judged), !.adeq4_true = @ + B2I(e.res = "ok" /\ e.ret),
                                   !.nontrivial = @ + B2I(judged)]
         /\ UNCHANGED <<sst, sgh, drift>>
    [] e.op = "display" ->
         /\ stats' = [stats EXCEPT !.sops = @ + 1, !.displays = @ + 1, !.display_panics = @ + B2I(e.res = "panic")]
         /\ UNCHANGED <<sst, sgh, viol>>

Step(e) ==
  CASE e.k = "begin" ->
         /\ mach' = e.machine
         /\ dst' = [i \in 1..e.regs |-> ZeroD] /\ dgh' = [i \in 1..e.regs |-> XZero]
         /\ sst' = [i \in 1..e.regs |-> <<ZeroD, ZeroD, ZeroD, ZeroD>>] /\ sgh' = [i \in 1..e.regs |-> S4Zero]
         /\ stats' = [stats EXCEPT !.histories = @ + 1, !.extreme_histories = @ + B2I(Has(e, "extreme") /\ e.extreme # 0)] /\ UNCHANGED <<viol, drift>>
    [] e.k = "d" -> DStep(e) /\ UNCHANGED <<mach, sst, sgh>>
                    /\ ((e.res # "panic" /\ e.op \in {"val_and_exp", "add", "sub", "mul", "neg", "abs"}) \/ UNCHANGED drift)
    [] e.k = "s" -> SStep(e) /\ UNCHANGED <<mach, dst, dgh>>
                    /\ ((e.op = "complex_value" \/ (e.res # "panic" /\ e.op \in SValueOps)) \/ UNCHANGED drift)
Next == \/ /\ l <= NLines /\ Step(Rec[l]) /\ l' = l + 1
        \/ /\ l = NLines + 1 /\ Report(l, viol, drift, stats) /\ l' = l + 1
           /\ UNCHANGED <<mach, dst, dgh, sst, sgh, viol, drift, stats>>
=============================================================================
