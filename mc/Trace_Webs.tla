----------------------------- MODULE Trace_Webs -----------------------------
(* C20: detection_webs of the real code, validated call by call.
   reset     : the diagram (boundaries numbered first)
   webs      : detection_webs on it: diagram left behind (bipartite form), returned webs, ins/outs
   renumber  : the same on the diagram renamed by `map` (boundaries last / interleaved); carries its
               own renamed `pre`, so every call is validated in full, plus SameCount against `webs`
   bip       : make_bipartite alone on the vec backend
   L2 predicates (all evaluated with spec/Webs.tla on the logged values):
     NoPanic, BoundaryRestored (ins/outs afterwards = the input's), IsBipartite, BipSound
     (Den(bip) = Den(pre)), WebEdgesExist (a web only marks edges of the diagram, with X/Y/Z),
     WebsValid (ValidWeb for every returned web), WebsIndependent, CountIsDim (number of webs =
     Dim = log2 |AllWebsFire(bip)|), WebsSpan (Span(webs) = AllWebsFire(bip)), SameCount (every
     numbering returns as many webs as the first), RenamingIsIso (harness sanity: the renamed
     diagram is Rename(cur, map)).
   API events (harness option --api, audit #23), L2 as well:
     EdgeLookup   (field `lookups` of webs / renumber / pw / store): PauliWeb::edge(u, v), asked for every ordered pair
                  of names, answers exactly the stored operator of the unordered pair, in both orders (Webs!LookupOK)
     pw     : detection_webs::pw called directly with a caller-chosen firing set F, index map and column offset on the
              bipartite diagram: NoPanic, WebEdgesExist, PwIsFiring (the web is FiringToWeb(bip, F): every leg of a fired Z
              spider carries X, of a fired X spider Z, both -> Y, no other edge is marked), PwValid (a firing set that
              satisfies FireOK gives a ValidWeb)
     adj    : adjacency_matrix(None | Some(list)) on both backends: NoPanic, AdjMatrix (entry (i, j) = 1 iff the i-th and
              j-th listed vertices are adjacent; None lists every vertex once)
     store  : PauliWeb::new + set_edge sequence: NoPanic, NewIsEmpty, SetEdge (the readable web is the function on
              unordered pairs defined by the calls, last call wins), EdgeLookup
   L1 (drift only): the logged bipartite form is the one the transcription MakeBipartite computes,
   up to the names of the new vertices. *)
EXTENDS TraceLib, Webs
VARIABLES l, cur, cnt0, viol, drift, stats
vars == <<l, cur, cnt0, viol, drift, stats>>
Init == l = 1 /\ cur = EmptyG /\ cnt0 = -1 /\ viol = <<>> /\ drift = <<>>
        /\ stats = [diagrams |-> 0, calls |-> 0, webs |-> 0, panics |-> 0, maxdim |-> 0, bips |-> 0, nontrivial |-> 0,
                    lookups |-> 0, pw_calls |-> 0, pw_valid_firings |-> 0, adj_calls |-> 0, store_calls |-> 0]
Check1(ok, name) == IF ok THEN <<>> ELSE <<<<l, name>>>>

WebFromLog(b, lst) == [e \in WEdges(b) |-> IF \E j \in 1..Len(lst) : Edge(lst[j][1], lst[j][2]) = e
                                           THEN lst[CHOOSE j \in 1..Len(lst) : Edge(lst[j][1], lst[j][2]) = e][3]
                                           ELSE "I"]
LogOK(b, lst) == /\ \A j \in 1..Len(lst) : Edge(lst[j][1], lst[j][2]) \in WEdges(b) /\ lst[j][3] \in {"X", "Y", "Z"}
                 /\ \A j, k \in 1..Len(lst) : j # k => Edge(lst[j][1], lst[j][2]) # Edge(lst[k][1], lst[k][2])

\* PauliWeb::edge against the stored map (only when the harness asked: option --api)
LookupViol(e, weblist, lks) ==
  IF \A i \in 1..Len(weblist) : LookupOK(WStoreOf(weblist[i]), WAnswers(lks[i]), e.asked_upto) THEN <<>> ELSE <<<<l, "EdgeLookup">>>>
NLookups(e) == IF Has(e, "lookups") THEN FoldSeq(LAMBDA x, acc : acc + Len(x), 0, e.lookups) ELSE 0

BipViol(e, pre, io) ==
  LET b == FromAbs(e.bip)
  IN Check1(io /\ b.ins = pre.ins /\ b.outs = pre.outs, "BoundaryRestored")
     \o Check1(Bipartite(b), "IsBipartite")
     \o Check1(Den(b) = Den(pre), "BipSound")
BipDrift(e, pre) == Check1(BipCanon(FromAbs(e.bip), pre.vs) = BipCanon(MakeBipartite(pre), pre.vs), "BipAsTranscribed")

CallViol(e, pre) ==
  IF e.res # "ok" THEN <<<<l, "NoPanic">>>>
  ELSE LET b == FromAbs(e.bip)
           n == Len(e.webs)
       IN BipViol(e, pre, e.ins = pre.ins /\ e.outs = pre.outs)
          \o (IF ~(\A i \in 1..n : LogOK(b, e.webs[i])) THEN <<<<l, "WebEdgesExist">>>>
              ELSE LET ws == [i \in 1..n |-> WebFromLog(b, e.webs[i])]
                       A == AllWebsFire(b)
                   IN Check1(\A i \in 1..n : ValidWeb(b, ws[i]), "WebsValid")
                      \o Check1(Independent(ws), "WebsIndependent")
                      \o Check1(n = WLog2(Cardinality(A)), "CountIsDim")
                      \o Check1(Span(b, ws) = A, "WebsSpan"))
          \o (IF Has(e, "lookups") THEN LookupViol(e, e.webs, e.lookups) ELSE <<>>)
CallStats(e) ==
  IF e.res # "ok" THEN [stats EXCEPT !.calls = @ + 1, !.panics = @ + 1]
  ELSE LET n == Len(e.webs) IN
       [stats EXCEPT !.calls = @ + 1, !.webs = @ + n, !.maxdim = IF n > @ THEN n ELSE @,
                     !.nontrivial = @ + (IF n > 0 THEN 1 ELSE 0), !.lookups = @ + NLookups(e)]

Step(e) ==
  CASE e.k = "reset" -> /\ cur' = FromAbs(e.pre) /\ cnt0' = -1
                        /\ stats' = [stats EXCEPT !.diagrams = @ + 1]
                        /\ UNCHANGED <<viol, drift>>
    [] e.k = "webs" ->
         /\ viol' = CallViol(e, cur) \o viol
         /\ drift' = (IF e.res = "ok" THEN BipDrift(e, cur) ELSE <<>>) \o drift
         /\ cnt0' = IF e.res = "ok" THEN Len(e.webs) ELSE -1
         /\ stats' = CallStats(e)
         /\ UNCHANGED cur
    [] e.k = "renumber" ->
         LET pre == FromAbs(e.pre)
             m == [i \in {e.map[j][1] : j \in 1..Len(e.map)} |-> e.map[CHOOSE j \in 1..Len(e.map) : e.map[j][1] = i][2]]
         IN /\ viol' = CallViol(e, pre)
                       \o Check1(e.res # "ok" \/ cnt0 < 0 \/ Len(e.webs) = cnt0, "SameCount")
                       \o Check1(cur.vs = {} \/ (DOMAIN m = cur.vs /\ Rename(cur, m) = pre), "RenamingIsIso")
                       \o viol
            /\ drift' = (IF e.res = "ok" THEN BipDrift(e, pre) ELSE <<>>) \o drift
            /\ stats' = CallStats(e)
            /\ UNCHANGED <<cur, cnt0>>
    [] e.k = "bip" ->
         /\ viol' = (IF e.res # "ok" THEN <<<<l, "NoPanic">>>> ELSE BipViol(e, cur, TRUE)) \o viol
         /\ drift' = (IF e.res = "ok" THEN BipDrift(e, cur) ELSE <<>>) \o drift
         /\ stats' = [stats EXCEPT !.bips = @ + 1]
         /\ UNCHANGED <<cur, cnt0>>
    [] e.k = "pw" ->
         IF e.res # "ok" THEN /\ viol' = Append(viol, <<l, "NoPanic", "pw">>) /\ stats' = [stats EXCEPT !.pw_calls = @ + 1, !.panics = @ + 1]
                              /\ UNCHANGED <<cur, cnt0, drift>>
         ELSE LET b == FromAbs(e.bip)
                  F == ToSet(e.fire)
              IN /\ viol' = (IF ~LogOK(b, e.web) THEN <<<<l, "WebEdgesExist", "pw">>>>
                             ELSE LET w == WebFromLog(b, e.web) IN
                                  Check1(w = FiringToWeb(b, F), "PwIsFiring")
                                  \o Check1(FireOK(b, F) => ValidWeb(b, w), "PwValid"))
                            \o LookupViol(e, <<e.web>>, <<e.lookups>>) \o viol
                 /\ stats' = [stats EXCEPT !.pw_calls = @ + 1, !.lookups = @ + Len(e.lookups),
                                            !.pw_valid_firings = @ + (IF F # {} /\ FireOK(b, F) THEN 1 ELSE 0)]
                 /\ UNCHANGED <<cur, cnt0, drift>>
    [] e.k = "adj" ->
         /\ viol' = (IF e.res # "ok" THEN <<<<l, "NoPanic", "adj">>>>
                     ELSE Check1(AdjOK(cur, e.order, e.rows) /\ (e.how = "none" => IsVertexList(cur, e.order)), "AdjMatrix")) \o viol
         /\ stats' = [stats EXCEPT !.adj_calls = @ + 1]
         /\ UNCHANGED <<cur, cnt0, drift>>
    [] e.k = "store" ->
         /\ viol' = (IF e.res # "ok" THEN <<<<l, "NoPanic", "store">>>>
                     ELSE Check1(e.new_is_empty, "NewIsEmpty")
                          \o Check1(WAnswers(e.lookups) = WSetEdgeAnswers(e.ops), "SetEdge")
                          \o LookupViol(e, <<e.web>>, <<e.lookups>>)) \o viol
         /\ stats' = [stats EXCEPT !.store_calls = @ + 1, !.lookups = @ + (IF e.res = "ok" THEN Len(e.lookups) ELSE 0)]
         /\ UNCHANGED <<cur, cnt0, drift>>
Next == \/ /\ l <= NLines /\ Step(Rec[l]) /\ l' = l + 1
        \/ /\ l = NLines + 1 /\ Report(l, viol, drift, stats) /\ l' = l + 1 /\ UNCHANGED <<cur, cnt0, viol, drift, stats>>
=============================================================================
