-------------------------------- MODULE MC_F2 --------------------------------
(* C17 on the specification.  From ONE initial state: pick a shape, append rows (every 0/1 row),
   then run the transcribed gauss_helper for every block size 1..cols and both modes.
   States with pc = "mat" are the complete matrices (per-matrix invariants: inverse, null space,
   the two rank definitions, algebraic laws); states with pc = "run" carry the result g of
   GaussImpl (per-run invariants). *)
EXTENDS F2
CONSTANTS SHAPES,    \* set of <<rows, cols>>
          ALG_MAX    \* algebraic laws are quantified over second/third operands only when rows * cols <= ALG_MAX
VARIABLES pc, shape, M, bs, full, g
vars == <<pc, shape, M, bs, full, g>>
NoRun == [m |-> <<>>, rank |-> 0, ops |-> <<>>, pcols |-> <<>>]

Init == pc = "pick" /\ shape = <<0, 0>> /\ M = <<>> /\ bs = 0 /\ full = FALSE /\ g = NoRun
PickShape == /\ pc = "pick"
             /\ \E s \in SHAPES : shape' = s
             /\ pc' = "rows" /\ UNCHANGED <<M, bs, full, g>>
AddRow == /\ pc = "rows"
          /\ \E row \in AllVecs(shape[2]) : M' = Append(M, row)
          /\ pc' = IF Len(M) + 1 = shape[1] THEN "mat" ELSE "rows"
          /\ UNCHANGED <<shape, bs, full, g>>
Run == /\ pc = "mat"
       /\ \E b \in 1..shape[2], f \in BOOLEAN : bs' = b /\ full' = f /\ g' = GaussImpl(M, f, b)
       /\ pc' = "run" /\ UNCHANGED <<shape, M>>
Next == PickShape \/ AddRow \/ Run

R == shape[1]
C == shape[2]
-----------------------------------------------------------------------------
\* per run: the transcribed algorithm
RowSpaceUnchanged == pc = "run" => GaussShape(M, g.m) /\ SameRowSpace(M, g.m) /\ SameRowSpaceElim(M, g.m)
ResultEchelon == pc = "run" => GaussForm(g.m, full)
RankReturned == pc = "run" => GaussRank(M, g.m, g.rank, TRUE) /\ g.rank = Len(g.pcols)
\* the pivot columns reported are the lead columns of the result
PivotsAreLeads == pc = "run" => \A i \in 1..Len(g.pcols) : LeadCol(g.m[i]) = g.pcols[i] + 1
\* the emitted operations: replay on M, as a matrix G with G * M = M', and on every other object with R rows
\* (all R x 1 and R x 2 matrices): X -> G * X
OpsGiveResult == pc = "run" => OpsReproduce(M, g.ops, g.m) /\ OpsAsMatrix(M, g.ops, g.m)
OpsOnAnyOther == pc = "run" => \A k \in 1..2 : \A X \in AllMats(R, k) : OpsOnOther(X, g.ops, ApplyOps(X, g.ops))
\* only additions are emitted, never of a row to itself (G is a product of transvections, hence invertible)
OpsAreTransvections == pc = "run" => \A i \in 1..Len(g.ops) : g.ops[i][1] = "add" /\ g.ops[i][2] # g.ops[i][3]
\* fully reduced results do not depend on the block size: the reduced echelon form is unique
ReducedFormUnique == (pc = "run" /\ full) => g.m = GaussImpl(M, TRUE, 1).m

\* per matrix
RankDefinitionsAgree == pc = "mat" => Rank(M) = RankElim(M) /\ RankImpl(M) = Rank(M) /\ Rank(Transpose(M)) = Rank(M)
InverseTwoSided == pc = "mat" => LET iv == InverseImpl(M) IN
                       InverseOK(M, iv.some, iv.inv, TRUE) /\ InverseOK(M, iv.some, iv.inv, FALSE)
\* "invertible" by brute force: some matrix X with X * M = I exists (not used for 4 x 4: 65 536 candidates per matrix)
InverseIffOneExists == pc = "mat" => (InverseImpl(M).some <=> (R = C /\ \E X \in AllMats(R, R) : Mul(X, M) = Identity(R)))
NullspaceBasis == pc = "mat" => LET ns == NullspaceImpl(M) IN
                       /\ NullspaceOK(M, ns, TRUE) /\ NullspaceOK(M, ns, FALSE)
                       /\ SpanOf(ns, C) = Kernel(M)

\* algebraic laws of the abstract operators
TransposeInvolutive == pc = "mat" => Transpose(Transpose(M)) = M /\ IsMat(Transpose(M), C, R)
IdentityNeutral == pc = "mat" => Mul(Identity(R), M) = M /\ Mul(M, Identity(C)) = M
Small == pc = "mat" /\ R * C <= ALG_MAX
TransposeOfProduct == Small => \A k \in 1..2 : \A B \in AllMats(C, k) :
                         /\ IsMat(Mul(M, B), R, k)
                         /\ Transpose(Mul(M, B)) = Mul(Transpose(B), Transpose(M))
MulAssociative == Small => \A k \in 1..2 : \A B \in AllMats(C, k) : \A D \in AllMats(k, 2) :
                         Mul(Mul(M, B), D) = Mul(M, Mul(B, D))
Stacking == Small => /\ \A k \in 1..2 : \A B \in AllMats(k, C) :
                           /\ IsMat(VStack(M, B), R + k, C)
                           /\ Transpose(VStack(M, B)) = HStack(Transpose(M), Transpose(B))
                           /\ \A D \in AllMats(C, 1) : Mul(VStack(M, B), D) = VStack(Mul(M, D), Mul(B, D))
                           /\ RowSpace(VStack(M, B)) = {VecAdd(u, v) : u \in RowSpace(M), v \in RowSpace(B)}
                     /\ \A k \in 1..2 : \A B \in AllMats(R, k) :
                           /\ IsMat(HStack(M, B), R, C + k)
                           /\ Transpose(HStack(M, B)) = VStack(Transpose(M), Transpose(B))
                           /\ \A D \in AllMats(1, R) : Mul(D, HStack(M, B)) = HStack(Mul(D, M), Mul(D, B))

UpTo(r, c) == (1..r) \X (1..c)
Shapes_q == UpTo(3, 3) \cup UpTo(2, 4)
Shapes_t == UpTo(3, 4) \cup UpTo(4, 3)
\* wider / taller shapes for the additional thorough config (core invariants only)
Shapes_x == {<<4, 4>>, <<3, 5>>, <<2, 6>>}
=============================================================================
