CONSTANTS NQ = 2
MAXLEN = 3
ONEQ = {"T", "NOT", "HAD", "S"}
TWOQ = {"CNOT", "CZ", "SWAP"}
PHS = {3}
INIT Init
NEXT Next
INVARIANT Normalised
INVARIANT ChainRule
INVARIANT ExpectReal
INVARIANT ExpectIdentity
INVARIANT ExpectZ
CHECK_DEADLOCK FALSE
