CONSTANTS K = 1
TYS = {"Z","X"}
PHS = {0,1,4}
ETS = {"N","H"}
NB = 2
VARS = {}
BB = TRUE
INIT Init
NEXT Next
INVARIANT AdjointOK
INVARIANT PlugInOK
INVARIANT PlugOutOK
INVARIANT IdentityOK
INVARIANT XToZOK
INVARIANT SubgraphOK
INVARIANT CopyOK
INVARIANT FlipSpecOK
INVARIANT PlugVertexOK
INVARIANT PlugOK
INVARIANT AppendOK
CHECK_DEADLOCK FALSE
