CONSTANTS N = 6
MAXF = 1
FULLMAX = 0
STABN = 3
ORDERED = FALSE
INIT Init
NEXT Next
INVARIANT PromiseEveryShift
INVARIANT NegativeControl
INVARIANT ShapeAccepts
INVARIANT SharpAmplitude
INVARIANT ZeroColumn
INVARIANT StabSpecOK
INVARIANT StabNegControl
INVARIANT LayerAdjointInverts
INVARIANT ExamplesJudged
CHECK_DEADLOCK FALSE
