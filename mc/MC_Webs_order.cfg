CONSTANTS K = 3
TYS = {"Z","X"}
PHS = {0,4}
ETS = {"N"}
NB = 1
VARS = {}
BB = FALSE
MAXE = 6
INIT Init
NEXT Next
INVARIANT AsWrittenComplete
CHECK_DEADLOCK FALSE
