CONSTANTS NQ = 2
MAXLEN = 3
ONEQ = {"S", "T", "NOT", "HAD"}
TWOQ = {"CNOT", "CZ", "XCX", "SWAP"}
SPECIAL = {"InitAncilla", "PostSelect", "Measure", "MeasureReset"}
PHS = {3}
THREEQ = {}
PPQ <- PPQ_2
POSTSEL = FALSE
INIT Init
NEXT Next
INVARIANT Translated
INVARIANT Arity
CHECK_DEADLOCK FALSE
