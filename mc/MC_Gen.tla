------------------------------- MODULE MC_Gen -------------------------------
(***************************************************************************)
(* C19 on the specification.                                               *)
(*                                                                         *)
(* THIS IS A CHECK OF THE CONTRACT DEFINITIONS of spec/Gen.tla, NOT of the *)
(* generators: the generators have no state space to exhaust (they are     *)
(* straight-line code driven by a ChaCha stream that is not modelled).     *)
(* What TLC exhausts here is that the contracts mean what they should:     *)
(*                                                                         *)
(*  oracle : for EVERY oracle circuit F over {Z, CZ, CCZ} on the first     *)
(*           half (up to MAXF gates) and EVERY shift s in {0,1}^N the      *)
(*           specification's own hidden-shift construction                 *)
(*           HiddenShiftSpec(N, F, s) keeps the semantic promise           *)
(*           |<s|C|0..0>|^2 = 1 (indeed <s|C|0..0> = 1), so the promise is *)
(*           satisfiable and is implied by the documented construction;    *)
(*           the same construction with the Z-shift moved in front of the  *)
(*           first Hadamard layer breaks it for s # 0 (the predicate       *)
(*           discriminates); HiddenShiftShape accepts the construction     *)
(*           exactly for the parameters that describe F's layout; the      *)
(*           state-vector evaluator CircApplyZero is column 0..0 of the    *)
(*           full gate-matrix semantics CircSem (for |F| <= FULLMAX).      *)
(*  stab   : the builder's diagram as the specification constructs it      *)
(*           (every phase vector over {0, pi/2, pi}, every set of          *)
(*           Hadamard edges, <= STABN qubits) satisfies StabStateOK under  *)
(*           the reference denotation, and forgetting the edge count in    *)
(*           the scalar breaks the norm.                                   *)
(*  layer  : for every basis-change layer on 2 qubits the contract's       *)
(*           adjoint layer is the inverse under CircSem.                   *)
(*  example: PauliGadgetOK / RandomCircuitOK accept and reject a list of   *)
(*           hand-made positive and negative examples as annotated.        *)
(***************************************************************************)
EXTENDS Gen
CONSTANTS N, MAXF, FULLMAX, STABN, ORDERED
VARIABLES mode, F, x
vars == <<mode, F, x>>

H2 == N \div 2
G(t, qs) == Gate(t, qs, 0)
\* ORDERED: both argument orders of CZ and all six of CCZ; otherwise CZ(a < b) and two argument orders of CCZ
CZPairs == {pq \in (0..(H2 - 1)) \X (0..(H2 - 1)) : IF ORDERED THEN pq[1] # pq[2] ELSE pq[1] < pq[2]}
CCZTriples == {t \in (0..(H2 - 1)) \X (0..(H2 - 1)) \X (0..(H2 - 1)) :
                 /\ t[1] # t[2] /\ t[1] # t[3] /\ t[2] # t[3]
                 /\ (ORDERED \/ t \in {<<0, 1, 2>>, <<2, 0, 1>>})}
Alphabet == {G("Z", <<q>>) : q \in 0..(H2 - 1)} \cup {G("CZ", <<pq[1], pq[2]>>) : pq \in CZPairs}
            \cup {G("CCZ", <<t[1], t[2], t[3]>>) : t \in CCZTriples}

\* ---------- hand-made examples ----------
RG(t, qs, num, den) == [t |-> t, qs |-> qs, ph |-> <<num, den>>, vars |-> PZero]
RH(q) == RG("HAD", <<q>>, 0, 1)
RX(q) == RG("XPhase", <<q>>, 1, 2)
RXd(q) == RG("XPhase", <<q>>, -1, 2)
PP(qs, num, den) == RG("ParityPhase", qs, num, den)
PG(q, d, lo, hi, den) == [qubits |-> q, depth |-> d, min_weight |-> lo, max_weight |-> hi, phase_denom |-> den]
RC(q, d, a, b, c, e, f) == [qubits |-> q, depth |-> d, p_cnot |-> a, p_cz |-> b, p_h |-> c, p_s |-> e, p_t |-> f]
C3(gs) == [n |-> 3, gates |-> gs]
Ex(which, p, c, expect) == [which |-> which, p |-> p, c |-> c, expect |-> expect]
Examples == <<
  \* ----- PauliGadgetOK: accepted -----
  Ex("pg", PG(3, 1, 2, 3, 4), C3(<<RH(0), RX(2), PP(<<0, 2>>, 1, 4), RXd(2), RH(0)>>), TRUE),
  Ex("pg", PG(3, 0, 2, 3, 4), C3(<<>>), TRUE),
  Ex("pg", PG(3, 2, 2, 2, 4), C3(<<PP(<<0, 1>>, 3, 4), RH(1), PP(<<1, 2>>, -1, 4), RH(1)>>), TRUE),
  Ex("pg", PG(3, 1, 1, 3, 6), C3(<<PP(<<0, 1, 2>>, 1, 3)>>), TRUE),              \* 2/6 = 1/3
  Ex("pg", PG(3, 1, 1, 3, 3), C3(<<PP(<<1>>, 1, 1)>>), TRUE),                   \* odd denominator: pi allowed
  Ex("pg", PG(3, 1, 1, 3, 2), C3(<<RX(1), PP(<<1>>, 1, 2), RXd(1)>>), TRUE),    \* denominator 2: Clifford allowed
  Ex("pg", PG(3, 1, 2, 3, 4), C3(<<PP(<<2, 0>>, 1, 4)>>), TRUE),                \* unsorted but distinct
  Ex("pg", PG(3, 1, 2, 3, 8), C3(<<RXd(0), PP(<<0, 1>>, -7, 8), RX(0)>>), TRUE),\* the other quarter turn
  Ex("pg", PG(3, 1, 0, 1, 4), C3(<<PP(<<>>, 1, 4)>>), TRUE),                    \* weight 0 within [0, 1]
  \* ----- PauliGadgetOK: rejected -----
  Ex("pg", PG(3, 1, 2, 3, 4), C3(<<RH(0), RX(2), PP(<<0, 2>>, 1, 4), RH(0), RXd(2)>>), FALSE),   \* closing layer not reversed
  Ex("pg", PG(3, 1, 2, 3, 4), C3(<<RX(2), PP(<<0, 2>>, 1, 4), RX(2)>>), FALSE),                  \* rotation not inverted
  Ex("pg", PG(3, 1, 2, 3, 4), C3(<<PP(<<0, 0>>, 1, 4)>>), FALSE),                                \* repeated qubit
  Ex("pg", PG(3, 1, 2, 3, 4), C3(<<PP(<<1>>, 1, 4)>>), FALSE),                                   \* weight below range
  Ex("pg", PG(3, 1, 1, 2, 4), C3(<<PP(<<0, 1, 2>>, 1, 4)>>), FALSE),                             \* weight above range
  Ex("pg", PG(3, 1, 2, 3, 4), C3(<<PP(<<0, 1>>, 1, 2)>>), FALSE),                                \* Clifford phase, denominator 4
  Ex("pg", PG(3, 1, 2, 3, 4), C3(<<PP(<<0, 1>>, 1, 1)>>), FALSE),
  Ex("pg", PG(3, 1, 2, 3, 4), C3(<<PP(<<0, 1>>, 0, 1)>>), FALSE),
  Ex("pg", PG(3, 1, 2, 3, 6), C3(<<PP(<<0, 1>>, -1, 2)>>), FALSE),
  Ex("pg", PG(3, 1, 2, 3, 4), C3(<<PP(<<0, 1>>, 1, 8)>>), FALSE),                                \* not a multiple of pi/4
  Ex("pg", PG(3, 1, 2, 3, 5), C3(<<PP(<<0, 1>>, 1, 4)>>), FALSE),
  Ex("pg", PG(3, 1, 2, 3, 4), C3(<<RH(0), PP(<<0, 1>>, 1, 4)>>), FALSE),                         \* closing layer missing
  Ex("pg", PG(3, 2, 2, 3, 4), C3(<<PP(<<0, 1>>, 1, 4)>>), FALSE),                                \* fewer gadgets than depth
  Ex("pg", PG(3, 1, 2, 3, 4), C3(<<PP(<<0, 1>>, 1, 4), PP(<<1, 2>>, 1, 4)>>), FALSE),            \* more gadgets than depth
  Ex("pg", PG(3, 1, 2, 3, 4), C3(<<RH(1), PP(<<0, 2>>, 1, 4), RH(1)>>), FALSE),                  \* basis gate outside the gadget
  Ex("pg", PG(3, 1, 2, 3, 4), C3(<<PP(<<0, 3>>, 1, 4)>>), FALSE),                                \* qubit out of range
  Ex("pg", PG(4, 1, 2, 3, 4), C3(<<PP(<<0, 1>>, 1, 4)>>), FALSE),                                \* qubit count
  Ex("pg", PG(3, 1, 2, 3, 4), C3(<<RG("S", <<0>>, 0, 1), PP(<<0, 1>>, 1, 4), RG("Sdg", <<0>>, 0, 1)>>), FALSE),
  Ex("pg", PG(3, 1, 2, 3, 4), C3(<<RH(0), RH(0), PP(<<0, 1>>, 1, 4), RH(0), RH(0)>>), FALSE),    \* two basis gates on one qubit
  Ex("pg", PG(3, 1, 2, 3, 4), C3(<<RG("XPhase", <<0>>, 1, 4), PP(<<0, 1>>, 1, 4), RG("XPhase", <<0>>, -1, 4)>>), FALSE),
  Ex("pg", PG(3, 1, 2, 3, 4), C3(<<RH(0)>>), FALSE),                                             \* no gadget at all
  \* ----- RandomCircuitOK -----
  Ex("rc", RC(3, 2, 20, 20, 20, 20, 20), C3(<<G("CNOT", <<0, 2>>), G("T", <<1>>)>>), TRUE),
  Ex("rc", RC(3, 3, 10, 0, 10, 0, 0), C3(<<G("HAD", <<1>>)>>), TRUE),                            \* total < 1: fewer gates allowed
  Ex("rc", RC(3, 0, 0, 0, 0, 0, 0), C3(<<>>), TRUE),
  Ex("rc", RC(3, 2, 50, 0, 50, 0, 0), C3(<<G("HAD", <<1>>)>>), FALSE),                           \* total = 1: exactly depth gates
  Ex("rc", RC(3, 1, 50, 0, 50, 0, 0), C3(<<G("HAD", <<1>>), G("HAD", <<1>>)>>), FALSE),          \* more gates than depth
  Ex("rc", RC(3, 1, 50, 0, 50, 0, 0), C3(<<G("CZ", <<0, 1>>)>>), FALSE),                         \* kind with probability 0
  Ex("rc", RC(3, 1, 50, 0, 50, 0, 0), C3(<<G("CNOT", <<1, 1>>)>>), FALSE),                       \* equal qubits
  Ex("rc", RC(3, 1, 50, 0, 50, 0, 0), C3(<<G("CNOT", <<1, 3>>)>>), FALSE),                       \* out of range
  Ex("rc", RC(3, 1, 50, 0, 50, 0, 0), C3(<<G("CNOT", <<1>>)>>), FALSE),                          \* arity
  Ex("rc", RC(2, 1, 50, 0, 50, 0, 0), C3(<<G("HAD", <<1>>)>>), FALSE)                            \* qubit count
>>
Judge(e) == IF e.which = "pg" THEN PauliGadgetOK(e.p, e.c) ELSE RandomCircuitOK(e.p, e.c)

\* ---------- the enumeration ----------
Init == mode = "init" /\ F = <<>> /\ x = 0
StabFamily ==
  UNION {{[n |-> n, ph |-> ph, es |-> es] : ph \in [1..n -> {0, 2, 4}],
                                            es \in SUBSET {ij \in (0..(n - 1)) \X (0..(n - 1)) : ij[2] < ij[1]}} : n \in 0..STABN}
Next ==
  \/ mode = "init" /\ mode' = "oracle" /\ UNCHANGED <<F, x>>
  \/ mode = "oracle" /\ Len(F) < MAXF /\ \E g \in Alphabet : F' = Append(F, g) /\ UNCHANGED <<mode, x>>
  \/ mode = "init" /\ mode' = "example" /\ x' \in 1..Len(Examples) /\ UNCHANGED F
  \/ mode = "init" /\ mode' = "stab" /\ x' \in StabFamily /\ UNCHANGED F
  \/ mode = "init" /\ mode' = "layer" /\ x' \in [1..2 -> 0..2] /\ UNCHANGED F

\* ---------- oracle ----------
Shifts == BIdx(N)
PromiseEveryShift ==
  mode = "oracle" => \A s \in Shifts : HiddenShiftPromise(HiddenShiftSpec(N, F, s), s)
\* the same construction with the Z-shift applied before the first Hadamard layer (Z|0> = |0>: the shift is lost)
ShiftFirstSpec(n, FF, s) ==
  [n |-> n, gates |-> ShiftLayer(s) \o HadLayer(n) \o FF \o CrossCZ(n) \o HadLayer(n) \o ShiftQubits(FF, n \div 2) \o CrossCZ(n) \o HadLayer(n)]
AllZero == [i \in 1..N |-> 0]
\* every non-zero shift for N <= 4; the unit vectors and the all-ones string for larger N (a control, not a theorem to exhaust)
ControlShifts == IF N <= 4 THEN Shifts \ {AllZero}
                 ELSE {[i \in 1..N |-> IF i = k THEN 1 ELSE 0] : k \in 1..N} \cup {[i \in 1..N |-> 1]}
NegativeControl ==
  mode = "oracle" => \A s \in ControlShifts : ~HiddenShiftPromise(ShiftFirstSpec(N, F, s), s)
S0 == [i \in 1..N |-> i % 2]
ShapeAccepts ==
  mode = "oracle" => \A cd \in 0..MAXF, k \in 0..MAXF :
     LET p == [qubits |-> N, clifford_depth |-> cd, n_ccz |-> k]
     IN HiddenShiftShape(p, HiddenShiftSpec(N, F, S0), S0) <=> HSOracleOK(p, F)
\* sharper than the promise: the amplitude is the number 1, not only of modulus 1
SharpAmplitude == mode = "oracle" => AmpZero(HiddenShiftSpec(N, F, S0), S0) = ROne
ZeroColumn ==
  mode = "oracle" /\ Len(F) <= FULLMAX =>
     LET c == HiddenShiftSpec(N, F, S0)
         v == CircApplyZero(c)
         T == CircSem(c)
     IN /\ \A b \in BIdx(N) : v[b] = T[[i \in 1..(2 * N) |-> IF i <= N THEN 0 ELSE b[i - N]]]
        /\ HiddenShiftPromiseFull(c, S0)

\* ---------- stabiliser states ----------
StabSpecOK == mode = "stab" => StabStateOK([qubits |-> x.n], StabStateSpec(x.n, x.ph, x.es))
StabNegControl == mode = "stab" /\ x.es # {} => ~StabStateUnit(StabStateSpecSc(x.n, x.ph, x.es, Sqrt2Pow(-x.n)))

\* ---------- basis-change layers ----------
LayerOf(ch) == SelectSeq(<<IF ch[1] = 1 THEN RH(0) ELSE IF ch[1] = 2 THEN RX(0) ELSE RG("-", <<>>, 0, 1),
                           IF ch[2] = 1 THEN RH(1) ELSE IF ch[2] = 2 THEN RX(1) ELSE RG("-", <<>>, 0, 1)>>,
                         LAMBDA g : g.t # "-")
LayerAdjointInverts ==
  mode = "layer" =>
     LET pre == LayerOf(x)
         post == RawAdjLayer(pre)
     IN /\ \A i \in 1..Len(pre) : RawAdjointOf(pre[Len(pre) + 1 - i], post[i])
        /\ CircSem(RawToCirc([n |-> 2, gates |-> pre \o post])) = IdTensor(2)
        \* and with the gadget in between the block is accepted by the contract
        /\ PauliGadgetOK(PG(2, 1, 2, 2, 4), [n |-> 2, gates |-> pre \o <<PP(<<0, 1>>, 1, 4)>> \o post])
        /\ PauliGadgetAsBuilt(PG(2, 1, 2, 2, 4), [n |-> 2, gates |-> pre \o <<PP(<<0, 1>>, 1, 4)>> \o post])

\* ---------- examples ----------
ExamplesJudged == mode = "example" => Judge(Examples[x]) = Examples[x].expect
=============================================================================
