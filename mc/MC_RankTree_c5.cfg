CONSTANTS GRAPHS <- GraphsC5
NORMALIZE = FALSE
INIT Init
NEXT Next
INVARIANT InvNoPanic
INVARIANT InvValidTree
INVARIANT InvCacheCoherent
INVARIANT InvWidthOK
CHECK_DEADLOCK FALSE
