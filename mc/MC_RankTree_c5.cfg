CONSTANTS GRAPHS <- GraphsC5
INIT Init
NEXT Next
INVARIANT InvNoPanic
INVARIANT InvValidTree
INVARIANT InvCacheCoherent
INVARIANT InvWidthOK
CHECK_DEADLOCK FALSE
