------------------------------ MODULE Trace_F2 ------------------------------
(* C17: recorded calls of quizx::linalg::Mat2 validated against the ABSTRACT machine of spec/F2.tla
   (any sequence of row additions/swaps is allowed; what is demanded are the post-conditions).
   begin            : the matrix M of the group
   gauss            : gauss_x(full, blocksize, proxy) / gauss(full): logged ops (as the proxy received them), result, rank
                      -> NoPanic, GaussShape, RowSpacePreserved, Echelon, ReducedEchelon (full), RankCorrect,
                         RankIsNonZeroRows, OpsReproduce (ApplyOps(M, ops) = out), OpsAsMatrix (G * M = out)
   rowops_on_other  : the logged ops applied by the code (RowOps impl of Mat2) to another matrix x
                      -> RowOpsOnOther (out = ApplyOps(x, ops) = G * x)
   colops           : col_add / col_swap on M -> ColOpsOK
   rank / inverse / nullspace -> RankCorrect / InverseExactlyWhenInvertible, InverseTwoSided /
                      NullShape, NullAnnihilated, NullIndependent, NullCount
   transpose / vstack / hstack / mul -> equal to the specification's operators (mul: `form` names which of the four
                      operand-ownership overloads &a*&b, &a*b, a*&b, a*b computed it; the same MulOK for each)
   row_weight / weight / unit_rows -> RowWeightOK / WeightOK / UnitRowsOK (the counts of spec/F2.tla).  The helpers return
                      u8: for a matrix with more than 255 ones weight() cannot return the count (it panics in an
                      overflow-checked build and wraps otherwise).  C17 promises nothing about Hamming weights beyond
                      what the type can express, so that case is only COUNTED (stats.weight_overflow, weight_overflow_panics)
   ctor             : zeros / ones / id / unit_vector of the group's shape -> CtorOK
   index / index_mut: Index / IndexMut<(usize, usize)> -> IndexOK (all entries read = M), IndexMutOK (out = M with the entries written)
   display          : the text of Display, line by line -> L1 only (DisplayText; the property fixes no format)
   Matrices with at most 6 rows and 6 columns are judged with the declarative definitions (RowSpace,
   2^rows combinations), larger ones (up to 24 x 24) with RankElim.
   L1 (drift only): ops / result / rank equal those of the transcription GaussImpl, InverseImpl, NullspaceImpl. *)
EXTENDS TraceLib, F2
VARIABLES l, M, viol, drift, stats
vars == <<l, M, viol, drift, stats>>
Init == l = 1 /\ M = <<>> /\ viol = <<>> /\ drift = <<>>
        /\ stats = [matrices |-> 0, big |-> 0, gauss |-> 0, ops |-> 0, rowops |-> 0, rank |-> 0, inverse |-> 0, invertible |-> 0,
                    nullspace |-> 0, nullvectors |-> 0, algebra |-> 0, panics |-> 0, mul_overloads |-> 0, weights |-> 0,
                    weight_overflow |-> 0, weight_overflow_panics |-> 0, unit_rows_found |-> 0, ctors |-> 0, index |-> 0,
                    displays |-> 0, nontrivial |-> 0]
Check1(ok, name) == IF ok THEN <<>> ELSE <<<<l, name>>>>
Drift1(ok, name) == IF ok THEN <<>> ELSE <<<<l, name>>>>
Sm == Len(M) <= 6 /\ NCols(M) <= 6
B2I(b) == IF b THEN 1 ELSE 0
Panic(e) == /\ viol' = Append(viol, <<l, "NoPanic">>)
            /\ stats' = [stats EXCEPT !.panics = @ + 1]
            /\ UNCHANGED <<M, drift>>
Step(e) ==
  CASE e.k = "begin" ->
         /\ M' = e.m
         /\ viol' = Check1(IsMat(e.m, e.rows, e.cols) /\ e.rows >= 1 /\ e.cols >= 1, "HarnessInput") \o viol
         /\ stats' = [stats EXCEPT !.matrices = @ + 1, !.big = @ + B2I(~(e.rows <= 6 /\ e.cols <= 6))]
         /\ UNCHANGED drift
    [] e.k = "gauss" ->
         IF e.res # "ok" THEN Panic(e)
         ELSE LET withops == e.api = "gauss_x"
                  t == GaussImpl(M, e.full, e.blocksize)
              IN /\ viol' = (IF ~GaussShape(M, e.out) THEN Check1(FALSE, "GaussShape")
                             ELSE Check1(GaussRowSpace(M, e.out, Sm), "RowSpacePreserved")
                               \o Check1(IsEchelon(e.out), "Echelon")
                               \o Check1(e.full => IsReducedEchelon(e.out), "ReducedEchelon")
                               \o Check1(e.rank = RankOf(M, Sm), "RankCorrect")
                               \o Check1(e.rank = NonZeroRows(e.out), "RankIsNonZeroRows")
                               \o (IF withops THEN Check1(OpsReproduce(M, e.ops, e.out), "OpsReproduce")
                                                \o Check1(OpsAsMatrix(M, e.ops, e.out), "OpsAsMatrix")
                                   ELSE <<>>)) \o viol
                 /\ drift' = Drift1(t.m = e.out /\ t.rank = e.rank /\ (withops => t.ops = e.ops), "GaussImpl") \o drift
                 /\ stats' = [stats EXCEPT !.gauss = @ + 1, !.ops = @ + Len(e.ops), !.nontrivial = @ + B2I(~withops \/ Len(e.ops) > 0)]
                 /\ UNCHANGED M
    [] e.k = "rowops_on_other" ->
         IF e.res # "ok" THEN Panic(e)
         ELSE /\ viol' = Check1(OpsOnOther(e.x, e.ops, e.out), "RowOpsOnOther") \o viol
              /\ stats' = [stats EXCEPT !.rowops = @ + 1, !.nontrivial = @ + B2I(Len(e.ops) > 0)]
              /\ UNCHANGED <<M, drift>>
    [] e.k = "colops" ->
         IF e.res # "ok" THEN Panic(e)
         ELSE /\ viol' = Check1(OpsOK(e.ops, NCols(M)) /\ IsMat(e.out, Len(M), NCols(M)) /\ e.out = ApplyColOps(M, e.ops), "ColOpsOK") \o viol
              /\ stats' = [stats EXCEPT !.rowops = @ + 1, !.nontrivial = @ + 1]
              /\ UNCHANGED <<M, drift>>
    [] e.k = "rank" ->
         IF e.res # "ok" THEN Panic(e)
         ELSE /\ viol' = Check1(e.ret = RankOf(M, Sm), "RankCorrect") \o viol
              /\ drift' = Drift1(e.ret = RankImpl(M), "RankImpl") \o drift
              /\ stats' = [stats EXCEPT !.rank = @ + 1, !.nontrivial = @ + 1]
              /\ UNCHANGED M
    [] e.k = "inverse" ->
         IF e.res \notin {"some", "none"} THEN Panic(e)
         ELSE LET some == e.res = "some"
                  inv == Invertible(M, Sm)
                  t == InverseImpl(M)
              IN /\ viol' = Check1(some <=> inv, "InverseExactlyWhenInvertible")
                         \o Check1(some => /\ IsMat(e.out, Len(M), Len(M))
                                           /\ Mul(M, e.out) = Identity(Len(M)) /\ Mul(e.out, M) = Identity(Len(M)), "InverseTwoSided") \o viol
                 /\ drift' = Drift1(t.some = some /\ (some => t.inv = e.out), "InverseImpl") \o drift
                 /\ stats' = [stats EXCEPT !.inverse = @ + 1, !.invertible = @ + B2I(inv), !.nontrivial = @ + 1]
                 /\ UNCHANGED M
    [] e.k = "nullspace" ->
         IF e.res # "ok" THEN Panic(e)
         ELSE /\ viol' = (IF ~NullShape(M, e.out) THEN Check1(FALSE, "NullShape")
                          ELSE Check1(NullAnnihilated(M, e.out), "NullAnnihilated")
                            \o Check1(NullIndependent(M, e.out, Sm), "NullIndependent")
                            \o Check1(NullCount(M, e.out, Sm), "NullCount")) \o viol
              /\ drift' = Drift1(NullspaceImpl(M) = e.out, "NullspaceImpl") \o drift
              /\ stats' = [stats EXCEPT !.nullspace = @ + 1, !.nullvectors = @ + Len(e.out), !.nontrivial = @ + 1]
              /\ UNCHANGED M
    [] e.k = "transpose" ->
         IF e.res # "ok" THEN Panic(e)
         ELSE /\ viol' = Check1(e.out = Transpose(M), "TransposeOK") \o Check1(e.out2 = M, "TransposeInvolutive") \o viol
              /\ stats' = [stats EXCEPT !.algebra = @ + 1, !.nontrivial = @ + 1]
              /\ UNCHANGED <<M, drift>>
    [] e.k = "vstack" ->
         IF e.res # "ok" THEN Panic(e)
         ELSE /\ viol' = Check1(e.out = VStack(M, e.b), "VStackOK") \o viol
              /\ stats' = [stats EXCEPT !.algebra = @ + 1, !.nontrivial = @ + 1]
              /\ UNCHANGED <<M, drift>>
    [] e.k = "hstack" ->
         IF e.res # "ok" THEN Panic(e)
         ELSE /\ viol' = Check1(e.out = HStack(M, e.b), "HStackOK") \o viol
              /\ stats' = [stats EXCEPT !.algebra = @ + 1, !.nontrivial = @ + 1]
              /\ UNCHANGED <<M, drift>>
    [] e.k = "mul" ->
         IF e.res # "ok" THEN Panic(e)
         ELSE /\ viol' = Check1(e.out = Mul(M, e.b), "MulOK") \o viol
              /\ stats' = [stats EXCEPT !.algebra = @ + 1, !.nontrivial = @ + 1,
                                        !.mul_overloads = @ + B2I(Has(e, "form") /\ e.form # "ref_ref")]
              /\ UNCHANGED <<M, drift>>
    [] e.k = "row_weight" ->
         IF e.res # "ok" THEN Panic(e)
         ELSE /\ viol' = Check1(RowWeightOK(M, e.ret), "RowWeightOK") \o viol
              /\ stats' = [stats EXCEPT !.weights = @ + 1, !.nontrivial = @ + 1]
              /\ UNCHANGED <<M, drift>>
    [] e.k = "weight" ->
         IF Weight(M) > MaxU8
         THEN \* the count does not fit the return type: observed, not judged
              /\ stats' = [stats EXCEPT !.weights = @ + 1, !.weight_overflow = @ + 1, !.weight_overflow_panics = @ + B2I(e.res # "ok")]
              /\ UNCHANGED <<M, viol, drift>>
         ELSE IF e.res # "ok" THEN Panic(e)
         ELSE /\ viol' = Check1(WeightOK(M, e.ret), "WeightOK") \o viol
              /\ stats' = [stats EXCEPT !.weights = @ + 1, !.nontrivial = @ + 1]
              /\ UNCHANGED <<M, drift>>
    [] e.k = "unit_rows" ->
         IF e.res # "ok" THEN Panic(e)
         ELSE /\ viol' = Check1(UnitRowsOK(M, e.ret), "UnitRowsOK") \o viol
              /\ stats' = [stats EXCEPT !.weights = @ + 1, !.unit_rows_found = @ + Len(e.ret), !.nontrivial = @ + 1]
              /\ UNCHANGED <<M, drift>>
    [] e.k = "ctor" ->
         IF e.res # "ok" THEN Panic(e)
         ELSE /\ viol' = Check1(CtorOK(e.kind, e.rows, e.cols, e.i, e.out) /\ e.nrows = Len(e.out) /\ e.ncols = NCols(e.out), "CtorOK") \o viol
              /\ stats' = [stats EXCEPT !.ctors = @ + 1, !.nontrivial = @ + 1]
              /\ UNCHANGED <<M, drift>>
    [] e.k = "index" ->
         IF e.res # "ok" THEN Panic(e)
         ELSE /\ viol' = Check1(e.out = M, "IndexOK") \o viol
              /\ stats' = [stats EXCEPT !.index = @ + 1, !.nontrivial = @ + 1]
              /\ UNCHANGED <<M, drift>>
    [] e.k = "index_mut" ->
         IF e.res # "ok" THEN Panic(e)
         ELSE /\ viol' = Check1(e.out = ApplySets(M, e.sets), "IndexMutOK") \o viol
              /\ stats' = [stats EXCEPT !.index = @ + 1, !.nontrivial = @ + 1]
              /\ UNCHANGED <<M, drift>>
    [] e.k = "display" ->
         LET good == e.res = "ok" /\ e.lines = MatLines(M) /\ e.nl /\ e.ascii IN
         /\ drift' = Drift1(good, "DisplayText") \o drift
         /\ stats' = [stats EXCEPT !.displays = @ + 1]
         /\ UNCHANGED <<M, viol>>
Next == \/ /\ l <= NLines /\ Step(Rec[l]) /\ l' = l + 1
        \/ /\ l = NLines + 1 /\ Report(l, viol, drift, stats) /\ l' = l + 1 /\ UNCHANGED <<M, viol, drift, stats>>
=============================================================================
