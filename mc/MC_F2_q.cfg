CONSTANTS SHAPES <- Shapes_q
ALG_MAX = 6
INIT Init
NEXT Next
INVARIANT RowSpaceUnchanged
INVARIANT ResultEchelon
INVARIANT RankReturned
INVARIANT PivotsAreLeads
INVARIANT OpsGiveResult
INVARIANT OpsOnAnyOther
INVARIANT OpsAreTransvections
INVARIANT ReducedFormUnique
INVARIANT RankDefinitionsAgree
INVARIANT InverseTwoSided
INVARIANT InverseIffOneExists
INVARIANT NullspaceBasis
INVARIANT TransposeInvolutive
INVARIANT IdentityNeutral
INVARIANT TransposeOfProduct
INVARIANT MulAssociative
INVARIANT Stacking
CHECK_DEADLOCK FALSE
