----------------------------- MODULE MC_RankTree -----------------------------
(* C18 on the specification: from the canonical caterpillar decomposition of each graph in
   GRAPHS with an empty cache, every sequence of the transcribed moves (every choice the random
   wrappers can make) interleaved with compute_ranks at any point keeps the node array a valid
   cubic tree on the graph's vertices, never panics, keeps every cached cut rank attached to a
   current tree edge with its current partition, and rankwidth()/rankwidth_score() called in
   ANY reachable state answer the values recomputed from scratch.  The cache is part of the
   state: all reachable (tree, partially filled cache) combinations are explored. *)
EXTENDS RankTree
CONSTANT GRAPHS
VARIABLES gr, nodes, ranks, panic
vars == <<gr, nodes, ranks, panic>>

Init == gr \in GRAPHS /\ nodes = Caterpillar(gr.n) /\ ranks = <<>> /\ panic = FALSE
Apply(r) == nodes' = r.nodes /\ ranks' = r.ranks /\ panic' = r.panic /\ UNCHANGED gr
ASwapLeaves == ~panic /\ \E a \in SwapLeavesArgs(nodes) : Apply(SwapLeaves(nodes, ranks, a[1], a[2]))
ALocalSwap == ~panic /\ \E a \in LocalSwapArgs(nodes) : Apply(LocalSwap(nodes, ranks, a[1], a[2], a[3]))
AMoveSubtree == ~panic /\ \E a \in MoveSubtreeArgs(nodes) : Apply(MoveSubtree(nodes, ranks, a[1], a[2]))
AComputeRanks == ~panic /\ ranks' = ComputeRanks(gr, nodes, ranks) /\ UNCHANGED <<gr, nodes, panic>>
Next == ASwapLeaves \/ ALocalSwap \/ AMoveSubtree \/ AComputeRanks

InvNoPanic == ~panic
InvValidTree == panic \/ ValidTree(gr, nodes)
InvCacheCoherent == panic \/ CacheCoherent(gr, nodes, ranks)
InvWidthOK == panic \/ WidthOK(gr, nodes, ranks)

\* ---- graphs (cfg files cannot contain tuples: GRAPHS <- one of the sets below)
G(n, adj) == [n |-> n, adj |-> adj]
K2 == G(2, {<<1, 2>>})
E3 == G(3, {})
P3 == G(3, {<<1, 2>>, <<2, 3>>})
P4 == G(4, {<<1, 2>>, <<2, 3>>, <<3, 4>>})
C4 == G(4, {<<1, 2>>, <<2, 3>>, <<3, 4>>, <<4, 1>>})
Star4 == G(4, {<<1, 2>>, <<1, 3>>, <<1, 4>>})
E4 == G(4, {})
C5 == G(5, {<<1, 2>>, <<2, 3>>, <<3, 4>>, <<4, 5>>, <<5, 1>>})
P5 == G(5, {<<1, 2>>, <<2, 3>>, <<3, 4>>, <<4, 5>>})
K4P == G(5, {<<1, 2>>, <<1, 3>>, <<1, 4>>, <<2, 3>>, <<2, 4>>, <<3, 4>>, <<4, 5>>})   \* K4 plus a pendant vertex
GraphsQ == {E3, P3, P4, C4, Star4, E4}
GraphsT == {C5, K4P}
GraphsC5 == {C5}
GraphsK4P == {K4P}
GraphsP5 == {P5}
\* two vertices: swap_random_leaves panics (InvNoPanic is violated); kept out of the plans, see plan_C18.py
GraphsK2 == {K2}
=============================================================================
