----------------------------- MODULE MC_RankTree -----------------------------
(* C18 on the specification: from the canonical caterpillar decomposition of each graph in
   GRAPHS with an empty cache, every sequence of the transcribed moves (every choice the random
   wrappers can make) interleaved with compute_ranks at any point keeps the node array a valid
   cubic tree on the graph's vertices, never panics, keeps every cached cut rank attached to a
   current tree edge with its current partition, and rankwidth()/rankwidth_score() called in
   ANY reachable state answer the values recomputed from scratch.  The cache is part of the
   state: all reachable (tree, partially filled cache) combinations are explored. *)
EXTENDS RankTree
CONSTANTS GRAPHS,      \* the graphs (one initial state each)
          NORMALIZE    \* FALSE: the exact machine, neighbour lists in the code's order.
                       \* TRUE: order-insensitive abstraction for larger graphs: neighbour lists are kept
                       \* sorted and random_local_swap may take EITHER neighbour of b other than c as d
                       \* (the code takes the first in list order; nothing else in the moves depends on
                       \* the order on a valid tree).  Every run of the exact machine maps, by sorting, to
                       \* a run of this one, and all invariants are insensitive to the order.
VARIABLES gr, nodes, ranks, panic,      \* the tree machine
          mode, adaptive, initw, an     \* the annealer machine (mode = "anneal"), idle otherwise
vars == <<gr, nodes, ranks, panic, mode, adaptive, initw, an>>
idle == <<mode, adaptive, initw, an>>
Norm(ns) == IF NORMALIZE THEN SortNhds(ns) ELSE ns
DSel == IF NORMALIZE THEN {1, 2} ELSE {1}

Init == /\ gr \in GRAPHS /\ nodes = Norm(Caterpillar(gr.n)) /\ ranks = <<>> /\ panic = FALSE
        /\ mode = "moves" /\ adaptive = FALSE /\ initw = 0 /\ an = <<>>
Apply(r) == nodes' = Norm(r.nodes) /\ ranks' = r.ranks /\ panic' = r.panic /\ UNCHANGED <<gr, idle>>
ASwapLeaves == mode = "moves" /\ ~panic /\ \E a \in SwapLeavesArgs(nodes) : Apply(SwapLeaves(nodes, ranks, a[1], a[2]))
ALocalSwap == mode = "moves" /\ ~panic /\ \E a \in LocalSwapArgs(nodes) : \E dk \in DSel :
                 Apply(LocalSwapD(nodes, ranks, a[1], a[2], a[3], dk))
AMoveSubtree == mode = "moves" /\ ~panic /\ \E a \in MoveSubtreeArgs(nodes) : Apply(MoveSubtree(nodes, ranks, a[1], a[2]))
AComputeRanks == mode = "moves" /\ ~panic /\ ranks' = ComputeRanks(gr, nodes, ranks) /\ UNCHANGED <<gr, nodes, panic, idle>>
Next == ASwapLeaves \/ ALocalSwap \/ AMoveSubtree \/ AComputeRanks

\* ---- direct calls with caller-chosen arguments (audit #16; config MC_RankTree_d): swap_subtrees for ANY two disjoint
\* subtrees and move_subtree for any path of at least four nodes, with the cache protocol the harness follows (the
\* library's own: clear the edges of path(c1, c2) resp. everything / the path edges and the edge a1-ao), and sort_nhds
SwapDirectArgs(ns) == {a \in RTIdx(ns) \X RTIdx(ns) : a[1] # a[2] /\ Len(Path(ns, a[1], a[2])) >= 3}
ASwapDirect == mode = "moves" /\ ~panic /\ \E a \in SwapDirectArgs(nodes) :
                 LET pt == Path(nodes, a[1], a[2]) IN
                 /\ SwapArgsValid(nodes, pt[2], a[1], pt[Len(pt) - 1], a[2])
                 /\ Apply(SwapDirect(nodes, ranks, pt[2], a[1], pt[Len(pt) - 1], a[2]))
AMoveDirect == mode = "moves" /\ ~panic /\ \E a \in MoveSubtreeArgs(nodes) : \E sel \in BOOLEAN :
                 LET pt == Path(nodes, a[1], a[2]) IN
                 /\ MoveArgsValid(nodes, pt)
                 /\ Apply(MoveDirect(nodes, ranks, pt, sel))
ASortNhds == mode = "moves" /\ ~panic /\ nodes' = SortNhds(nodes) /\ SortKeepsTree(nodes, nodes') /\ UNCHANGED <<gr, ranks, panic, idle>>
NextD == AComputeRanks \/ ASwapDirect \/ AMoveDirect \/ ASortNhds
\* the queries agree with their definitions in every reachable state (Path / Partition / Edges are what the
\* trace specification judges path() / partition() / edges() against)
InvQueries == panic \/ (/\ \A a, b \in RTIdx(nodes) : IsTreePath(nodes, Path(nodes, a, b), a, b)
                        /\ \A e \in Edges(nodes) : Partition(nodes, e) \cup Partition(nodes, <<e[2], e[1]>>) = RTVerts(gr)
                                                    /\ Partition(nodes, e) \cap Partition(nodes, <<e[2], e[1]>>) = {}
                                                    /\ Partition(nodes, e) # {} /\ Partition(nodes, <<e[2], e[1]>>) # {}
                        /\ NumEdges(nodes) = Cardinality(Edges(nodes)))

InvNoPanic == ~panic
InvValidTree == panic \/ ValidTree(gr, nodes)
InvCacheCoherent == panic \/ CacheCoherent(gr, nodes, ranks)
InvWidthOK == panic \/ WidthOK(gr, nodes, ranks)

\* ---- the annealer machine: run() started on the initial tree or (ANNEAL_FROM_ANY) on any state of
\* the tree machine (any tree, any partially filled cache: new_with_decomp takes the caller's tree
\* as it is); every iteration draws a move, every choice of its arguments, and the acceptance
\* coin.  nodes/ranks follow old_decomp.
ADAPTIVE == {TRUE, FALSE}
AStartAnneal == /\ mode = "moves" /\ ~panic
                /\ mode' = "anneal" /\ adaptive' \in ADAPTIVE /\ initw' = TrueWidth(gr, nodes)
                /\ an' = AnnealStart(gr, nodes, ranks)
                /\ ranks' = an'.old.ranks /\ UNCHANGED <<gr, nodes, panic>>
AAnnealStep == /\ mode = "anneal" /\ ~panic
               /\ \E kind \in AnnealKinds : \E r \in MoveResultsD(kind, nodes, ranks, DSel) : \E coin \in BOOLEAN :
                    /\ an' = AnnealStep(gr, an, adaptive, [r EXCEPT !.nodes = Norm(@)], coin)
                    /\ nodes' = an'.old.nodes /\ ranks' = an'.old.ranks /\ panic' = an'.panic
               /\ UNCHANGED <<gr, mode, adaptive, initw>>
NextA == Next \/ AStartAnneal \/ AAnnealStep
InvAnnealerOK == (mode = "anneal" /\ ~panic) => AnnealerOK(gr, initw, an)

\* ---- graphs (cfg files cannot contain tuples: GRAPHS <- one of the sets below)
G(n, adj) == [n |-> n, adj |-> adj]
K2 == G(2, {<<1, 2>>})
E3 == G(3, {})
P3 == G(3, {<<1, 2>>, <<2, 3>>})
P4 == G(4, {<<1, 2>>, <<2, 3>>, <<3, 4>>})
C4 == G(4, {<<1, 2>>, <<2, 3>>, <<3, 4>>, <<4, 1>>})
Star4 == G(4, {<<1, 2>>, <<1, 3>>, <<1, 4>>})
E4 == G(4, {})
C5 == G(5, {<<1, 2>>, <<2, 3>>, <<3, 4>>, <<4, 5>>, <<5, 1>>})
P5 == G(5, {<<1, 2>>, <<2, 3>>, <<3, 4>>, <<4, 5>>})
K4P == G(5, {<<1, 2>>, <<1, 3>>, <<1, 4>>, <<2, 3>>, <<2, 4>>, <<3, 4>>, <<4, 5>>})   \* K4 plus a pendant vertex
GraphsQ == {E3, P3, P4, C4, Star4, E4}
GraphsT == {C5, K4P, P5}
GraphsC5 == {C5}
GraphsK4P == {K4P}
GraphsP5 == {P5}
\* two vertices: swap_random_leaves panics (InvNoPanic is violated); kept out of the plans, see plan_C18.py
GraphsK2 == {K2}
\* annealer machine: graphs with at least one edge (on edgeless graphs adaptive cooling panics with
\* NaN: GraphsNaN is the config that shows it, kept out of the plans)
GraphsA == {P3, P4, C4, Star4}
GraphsAX == {P3, C4}
GraphsNaN == {E3}
GraphsA5 == {P3, P4, C4, Star4, C5, K4P}
=============================================================================
