CONSTANTS C = 2
E = 1
INIT Init
NEXT Next
INVARIANT Canonical
INVARIANT AddLaws
INVARIANT MulLaws
INVARIANT Distrib
INVARIANT ConjLaws
INVARIANT Roots
INVARIANT NormMult
INVARIANT ExactPhase
INVARIANT ExactPhaseSound
INVARIANT PosReal
CHECK_DEADLOCK FALSE
