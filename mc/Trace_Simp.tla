----------------------------- MODULE Trace_Simp -----------------------------
(* C01 / C10: validation of recorded runs of the simplifiers of the real code.
   reset : a new diagram; its denotation (under every assignment) is computed once
   simp  : one pub fn of simplify.rs run on a copy of it: L2 Sound (Den(post) = Den(pre)),
           NoPanic, Terminates (the watchdog did not fire), StaysWF;
           L1: post is quiescent for the strategy the function implements *)
EXTENDS TraceLib, ZXSem, Simp, FiniteSets, FiniteSetsExt

VARIABLES l, cur, den0, vset, viol, drift, stats
vars == <<l, cur, den0, vset, viol, drift, stats>>
Init == l = 1 /\ cur = EmptyG /\ den0 = <<>> /\ vset = {} /\ viol = <<>> /\ drift = <<>>
        /\ stats = [diagrams |-> 0, runs |-> 0, sound |-> 0, nontrivial |-> 0]
StratOf(fn) == CASE fn = "flow_simp" -> "flow" [] fn = "interior_clifford_simp" -> "interior"
                 [] fn = "clifford_simp" -> "clifford" [] fn = "full_simp" -> "full" [] OTHER -> "none"
Step(e) ==
  CASE e.k = "reset" ->
         LET g == FromAbs(e.pre) IN
         /\ cur' = g /\ vset' = VarsOf(g) /\ den0' = DenV(g, VarsOf(g))
         /\ stats' = [stats EXCEPT !.diagrams = @ + 1]
         /\ UNCHANGED <<viol, drift>>
    [] e.k = "simp" ->
         IF e.res = "panic" THEN
           viol' = Append(viol, <<l, "NoPanic">>) /\ stats' = [stats EXCEPT !.runs = @ + 1] /\ UNCHANGED <<cur, den0, vset, drift>>
         ELSE IF e.res = "timeout" THEN
           viol' = Append(viol, <<l, "Terminates">>) /\ stats' = [stats EXCEPT !.runs = @ + 1] /\ UNCHANGED <<cur, den0, vset, drift>>
         ELSE
           LET post == FromAbs(e.post)
               vs2 == vset \cup VarsOf(post)
               d0 == IF vs2 = vset THEN den0 ELSE DenV(cur, vs2)
               sound == DenV(post, vs2) = d0
               wf == WellFormed(post)
               st == StratOf(e.fn)
               quiet == st = "none" \/ Quiescent(st, post)
           IN /\ viol' = (IF sound THEN <<>> ELSE <<<<l, "Sound">>>>) \o (IF wf THEN <<>> ELSE <<<<l, "StaysWF">>>>) \o viol
              /\ drift' = IF quiet THEN drift ELSE Append(drift, <<l, "NotQuiescent", e.fn>>)
              /\ stats' = [stats EXCEPT !.runs = @ + 1, !.sound = @ + (IF sound THEN 1 ELSE 0),
                                        !.nontrivial = @ + (IF post # cur THEN 1 ELSE 0)]
              /\ UNCHANGED <<cur, den0, vset>>
Next == \/ /\ l <= NLines /\ Step(Rec[l]) /\ l' = l + 1
        \/ /\ l = NLines + 1 /\ Report(l, viol, drift, stats) /\ l' = l + 1
           /\ UNCHANGED <<cur, den0, vset, viol, drift, stats>>
=============================================================================
