----------------------------- MODULE Trace_Simp -----------------------------
(* C01 / C10: validation of recorded runs of the simplifiers of the real code.
   reset : a new diagram; its denotation (under every assignment) is computed once
   simp  : one pub fn of simplify.rs run on a copy of it: L2 Sound (Den(post) = Den(pre)),
           NoPanic, Terminates (the watchdog did not fire), StaysWF;
           L1: post is quiescent for the strategy the function implements
   rbegin / rstep / rend (hook H3): one simplifier run with an event after EVERY rule application, pack,
           x_to_z, fuse_gadgets, remove_gadget_pi, each with the diagram after it.  L1 (drift):
             StepOK    the matcher of the rule holds on the previous diagram and the logged diagram is the
                       specification's Apply of that rule with those arguments (exact scalar and scalar
                       factors, up to the names of new vertices); pack = the same diagram or Packed;
                       x_to_z = XToZ; the batch steps = FuseGadgets / RemoveGadgetPi up to the member kept
             Schedule  the rule belongs to the strategy the function implements (StratRules)
             EndIsLast the returned diagram is the diagram after the last step
           i.e. the run is a path of SimpSteps of spec/Simp.tla (whose every path MC_Simp explores);
           L2 for these runs: NoPanic, Terminates, Sound at the end as for `simp`
   begin / simpf (engine flag --generic): the clause "otherwise it holds to floating-point tolerance".  begin carries a diagram
           whose phases are NOT multiples of pi/4 (no denotation in Ring: nothing is computed); simpf is one simplifier run on
           it.  Floating point cannot be decided by TLC: the harness evaluates pre and post with its independent float reference
           evaluator (harness/src/refeval.rs, validated against the exact Den by Trace_Tensor!RefEvalOK) and logs the boolean
           close = (max entry difference <= 1e-9, relative to the largest entry, at least 1).
           L2: SoundFloat (close), NoPanic, Terminates.  res = toobig (result beyond the evaluator's bound) is counted only *)
EXTENDS TraceLib, ZXSem, Simp, FiniteSets, FiniteSetsExt

VARIABLES l, cur, den0, vset, run, nsteps, viol, drift, stats
vars == <<l, cur, den0, vset, run, nsteps, viol, drift, stats>>
Init == l = 1 /\ cur = EmptyG /\ den0 = <<>> /\ vset = {} /\ run = EmptyG /\ nsteps = 0 /\ viol = <<>> /\ drift = <<>>
        /\ stats = [diagrams |-> 0, runs |-> 0, sound |-> 0, nontrivial |-> 0, step_runs |-> 0, steps |-> 0, steps_ok |-> 0, packs_renaming |-> 0,
                    generic_diagrams |-> 0, generic_runs |-> 0, generic_close |-> 0, generic_approx |-> 0, generic_changed |-> 0, generic_toobig |-> 0]
\* the Rust name of the unchecked rule -> the rule of spec/Rules.tla
RuleOf(r) == CASE r = "remove_id_unchecked" -> "remove_id" [] r = "local_comp_unchecked" -> "local_comp"
               [] r = "spider_fusion_unchecked" -> "spider_fusion" [] r = "pivot_unchecked" -> "pivot"
               [] r = "gen_pivot_unchecked" -> "gen_pivot_reduce" [] r = "remove_single_unchecked" -> "remove_single"
               [] r = "remove_pair_unchecked" -> "remove_pair" [] OTHER -> r
FnRules(fn) == CASE fn = "id_simp" -> {"remove_id"} [] fn = "local_comp_simp" -> {"local_comp"} [] fn = "spider_simp" -> {"spider_fusion"}
                 [] fn = "pivot_simp" -> {"pivot"} [] fn = "gen_pivot_simp" -> {"gen_pivot_reduce"} [] fn = "scalar_simp" -> {"remove_single", "remove_pair"}
                 [] fn = "flow_simp" -> StratRules("flow") \cup {"x_to_z"} [] fn = "interior_clifford_simp" -> StratRules("interior") \cup {"x_to_z"}
                 [] fn = "clifford_simp" -> StratRules("clifford") \cup {"x_to_z"}
                 [] fn = "full_simp" -> StratRules("full") \cup {"x_to_z", "fuse_gadgets", "remove_gadget_pi"}
                 [] fn = "fuse_gadgets" -> {"fuse_gadgets"} [] OTHER -> {}
StepOK(rule, args, g, post) ==
  CASE rule = "pack" -> post = g \/ post = Packed(g)
    [] rule = "x_to_z" -> post = XToZ(g)
    [] rule = "fuse_gadgets" -> CanFuseGadgets(g) /\ post \in FuseGadgetsSet(g)
    [] rule = "remove_gadget_pi" -> CanRemoveGadgetPi(g) /\ post \in RemoveGadgetPiSet(g)
    [] OTHER -> /\ rule \in Rules1 \cup Rules2 /\ \A i \in 1..Len(args) : args[i] \in g.vs
                /\ Check(rule, g, args)
                /\ \E sp \in ApplySet(rule, g, args) : ~sp.panic /\ SameUpToNew(sp.g, post, g.vs)
StratOf(fn) == CASE fn = "flow_simp" -> "flow" [] fn = "interior_clifford_simp" -> "interior"
                 [] fn = "clifford_simp" -> "clifford" [] fn = "full_simp" -> "full" [] OTHER -> "none"
Step(e) ==
  CASE e.k = "reset" ->
         LET g == FromAbs(e.pre) IN
         /\ cur' = g /\ vset' = VarsOf(g) /\ den0' = DenV(g, VarsOf(g))
         /\ stats' = [stats EXCEPT !.diagrams = @ + 1]
         /\ UNCHANGED <<run, nsteps, viol, drift>>
    [] e.k = "simp" ->
         IF e.res = "panic" THEN
           viol' = Append(viol, <<l, "NoPanic">>) /\ stats' = [stats EXCEPT !.runs = @ + 1] /\ UNCHANGED <<cur, den0, vset, run, nsteps, drift>>
         ELSE IF e.res = "timeout" THEN
           viol' = Append(viol, <<l, "Terminates">>) /\ stats' = [stats EXCEPT !.runs = @ + 1] /\ UNCHANGED <<cur, den0, vset, run, nsteps, drift>>
         ELSE
           LET post == FromAbs(e.post)
               vs2 == vset \cup VarsOf(post)
               d0 == IF vs2 = vset THEN den0 ELSE DenV(cur, vs2)
               sound == DenV(post, vs2) = d0
               wf == WellFormed(post)
               st == StratOf(e.fn)
               quiet == st = "none" \/ Quiescent(st, post)
           IN /\ viol' = (IF sound THEN <<>> ELSE <<<<l, "Sound">>>>) \o (IF wf THEN <<>> ELSE <<<<l, "StaysWF">>>>) \o viol
              /\ drift' = IF quiet THEN drift ELSE Append(drift, <<l, "NotQuiescent", e.fn>>)
              /\ stats' = [stats EXCEPT !.runs = @ + 1, !.sound = @ + (IF sound THEN 1 ELSE 0),
                                        !.nontrivial = @ + (IF post # cur THEN 1 ELSE 0)]
              /\ UNCHANGED <<cur, den0, vset, run, nsteps>>
    [] e.k = "begin" -> stats' = [stats EXCEPT !.generic_diagrams = @ + 1] /\ UNCHANGED <<cur, den0, vset, run, nsteps, viol, drift>>
    [] e.k = "simpf" ->
         /\ viol' = IF e.res = "panic" THEN Append(viol, <<l, "NoPanic">>)
                    ELSE IF e.res = "timeout" THEN Append(viol, <<l, "Terminates">>)
                    ELSE IF e.res = "ok" /\ ~e.close THEN Append(viol, <<l, "SoundFloat">>)
                    ELSE viol
         /\ stats' = [stats EXCEPT !.generic_runs = @ + 1, !.generic_toobig = @ + (IF e.res = "toobig" THEN 1 ELSE 0),
                                   !.generic_close = @ + (IF e.res = "ok" /\ e.close THEN 1 ELSE 0),
                                   !.generic_approx = @ + (IF e.res = "ok" /\ e.approx THEN 1 ELSE 0),
                                   !.generic_changed = @ + (IF e.res = "ok" /\ e.changed THEN 1 ELSE 0),
                                   !.nontrivial = @ + (IF e.res = "ok" /\ e.changed THEN 1 ELSE 0)]
         /\ UNCHANGED <<cur, den0, vset, run, nsteps, drift>>
    [] e.k = "rbegin" -> run' = cur /\ nsteps' = 0 /\ stats' = [stats EXCEPT !.step_runs = @ + 1] /\ UNCHANGED <<cur, den0, vset, viol, drift>>
    [] e.k = "rstep" ->
         LET post == FromAbs(e.post)
             r == RuleOf(e.rule)
             ok == StepOK(r, e.args, run, post)
             sched == r = "pack" \/ r \in FnRules(e.fn)
         IN /\ drift' = drift \o (IF ok THEN <<>> ELSE <<<<l, "StepOK", e.fn, r>>>>) \o (IF sched THEN <<>> ELSE <<<<l, "Schedule", e.fn, r>>>>)
            /\ run' = post /\ nsteps' = nsteps + 1
            /\ stats' = [stats EXCEPT !.steps = @ + 1, !.steps_ok = @ + (IF ok /\ sched THEN 1 ELSE 0),
                                      !.packs_renaming = @ + (IF r = "pack" /\ post # run THEN 1 ELSE 0)]
            /\ UNCHANGED <<cur, den0, vset, viol>>
    [] e.k = "rend" ->
         IF e.res # "ok" THEN
           viol' = Append(viol, <<l, IF e.res = "panic" THEN "NoPanic" ELSE "Terminates">>) /\ UNCHANGED <<cur, den0, vset, run, nsteps, drift, stats>>
         ELSE
           LET post == FromAbs(e.post)
               vs2 == vset \cup VarsOf(post)
               d0 == IF vs2 = vset THEN den0 ELSE DenV(cur, vs2)
               sound == DenV(post, vs2) = d0
               last == nsteps >= 400 \/ post = run
           IN /\ viol' = IF sound THEN viol ELSE Append(viol, <<l, "Sound">>)
              /\ drift' = IF last THEN drift ELSE Append(drift, <<l, "EndIsLast", e.fn>>)
              /\ UNCHANGED <<cur, den0, vset, run, nsteps, stats>>
Next == \/ /\ l <= NLines /\ Step(Rec[l]) /\ l' = l + 1
        \/ /\ l = NLines + 1 /\ Report(l, viol, drift, stats) /\ l' = l + 1
           /\ UNCHANGED <<cur, den0, vset, run, nsteps, viol, drift, stats>>
=============================================================================
