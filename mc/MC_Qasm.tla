------------------------------- MODULE MC_Qasm -------------------------------
(* C14 on the specification.  One initial state, two families:
   circuits  ChooseN, AddGate: every circuit on 1..NQ qubits with <= MAXLEN gates over the property's gate list
             (all argument orders, the phases PHS as pairs <<num, den>>) plus the gates the front end does not
             declare (pp, measure_r) and measurement gates with a variable: RoundTrip, OutsideInv, PrintShape
   programs  ChooseRegs, AddStmt: every abstract program with 1..MAXREGS registers of the sizes SIZES and <= MAXST
             statements: gates on every reference / pair of references across registers, un-normalised parameters,
             barrier, reset, if, U, undefined gate names, measure, the built-in CX, ill-typed statements:
             OffsetsInOrder, ErrAbsorbing, NothingDropped, UnsupportedIsErr, SupportedIsOk, Reprint
   NameTableInverse is a property of the two tables alone. *)
EXTENDS Qasm
CONSTANTS NQ, MAXLEN, ONEQ, TWOQ, THREEQ, PHS, OUTQ,
          SIZES, MAXREGS, MAXST, GN1, GN2, GN3, PARS, UNDEF
VARIABLES mode, c, p
EmptyC == [n |-> 0, gates |-> <<>>]
EmptyP == [regs |-> <<>>, ncb |-> 0, stmts |-> <<>>]

\* ---------- circuits ----------
G(t, qs, ph) == [t |-> t, qs |-> qs, ph |-> ph, vars |-> <<>>]
Qs(n) == 0..(n - 1)
QPairs(n) == {q \in Qs(n) \X Qs(n) : q[1] # q[2]}
QTriples(n) == {q \in Qs(n) \X Qs(n) \X Qs(n) : q[1] # q[2] /\ q[1] # q[3] /\ q[2] # q[3]}
CAlphabet(n) ==
  {G(t, <<q>>, QPhZero) : t \in ONEQ, q \in Qs(n)}
  \cup {G(t, <<q>>, ph) : t \in {"ZPhase", "XPhase"}, q \in Qs(n), ph \in PHS}
  \cup {G(t, <<q[1], q[2]>>, QPhZero) : t \in TWOQ, q \in QPairs(n)}
  \cup {G(t, <<q[1], q[2], q[3]>>, QPhZero) : t \in THREEQ, q \in QTriples(n)}
  \cup (IF "ParityPhase" \in OUTQ THEN {G("ParityPhase", qs, ph) : qs \in {<<0>>} \cup (IF n >= 2 THEN {<<1, 0>>} ELSE {}), ph \in PHS} ELSE {})
  \cup {G(t, <<n - 1>>, QPhZero) : t \in OUTQ \ {"ParityPhase"}}
  \cup (IF "Measure" \in OUTQ THEN {[t |-> "Measure", qs |-> <<0>>, ph |-> QPhZero, vars |-> <<1>>]} ELSE {})

\* ---------- programs ----------
RNames == <<"q", "b", "a">>
Shapes == UNION {[1..k -> SIZES] : k \in 1..MAXREGS}
RegsOf(f) == [i \in 1..Len(f) |-> [name |-> RNames[i], size |-> f[i]]]
GS(nm, ps, as) == [s |-> "gate", name |-> nm, param |-> ps, args |-> as]
First == <<1, 0>>
PGateStmts(regs) ==
  LET R == QRefs(regs)
      R2 == {a \in R \X R : a[1] # a[2]}
      R3 == {a \in R \X R \X R : a[1] # a[2] /\ a[1] # a[3] /\ a[2] # a[3]}
  IN {GS(nm, <<>>, <<a>>) : nm \in GN1, a \in R}
     \cup {GS("rz", <<ph>>, <<a>>) : ph \in PARS, a \in R}
     \cup {GS(nm, <<>>, <<a[1], a[2]>>) : nm \in GN2, a \in R2}
     \cup {GS(nm, <<>>, <<a[1], a[2], a[3]>>) : nm \in GN3, a \in R3}
     \cup {GS("CX", <<>>, <<a[1], a[2]>>) : a \in {b \in R2 : b[1] = First}}          \* the built-in CX
     \cup {GS(nm, <<>>, <<First>>) : nm \in UNDEF}                                     \* undefined gate names
     \cup {GS("u3", <<<<1, 2>>, <<0, 1>>, <<1, 1>>>>, <<First>>)}
     \* ill-typed: missing / extra parameter, bit out of range, overlapping operands, missing operand
     \cup {GS("rz", <<>>, <<First>>), GS("x", <<<<1, 1>>>>, <<First>>), GS("h", <<>>, <<<<1, 7>>>>),
           GS("cx", <<>>, <<First, First>>), GS("cx", <<>>, <<First>>)}
POtherStmts(regs) ==
  {[s |-> "barrier", args |-> <<First>>], [s |-> "barrier", args |-> <<<<1, -1>>>>], [s |-> "reset", args |-> <<First>>],
   [s |-> "U", args |-> <<First>>]}
MeasureStmts(regs) == {[s |-> "measure", args |-> <<a>>, cbit |-> 0] : a \in QRefs(regs)} \cup {[s |-> "measure", args |-> <<First>>, cbit |-> 5]}
IfStmts(regs) == {[s |-> "if", val |-> 1, then |-> GS("x", <<>>, <<First>>)]}

Init == mode = "start" /\ c = EmptyC /\ p = EmptyP
ChooseN == mode = "start" /\ \E n \in 1..NQ : c' = [n |-> n, gates |-> <<>>] /\ mode' = "circ" /\ p' = p
AddGate == mode = "circ" /\ Len(c.gates) < MAXLEN /\ \E g \in CAlphabet(c.n) : c' = [c EXCEPT !.gates = Append(@, g)] /\ UNCHANGED <<mode, p>>
ChooseRegs == mode = "start" /\ \E f \in Shapes : p' = [regs |-> RegsOf(f), ncb |-> 1, stmts |-> <<>>] /\ mode' = "prog" /\ c' = c
Add(s) == p' = [p EXCEPT !.stmts = Append(@, s)] /\ UNCHANGED <<mode, c>>
AddStmt == mode = "prog" /\ Len(p.stmts) < MAXST
           /\ \/ \E s \in PGateStmts(p.regs) : Add(s)
              \/ \E s \in POtherStmts(p.regs) : Add(s)
              \/ \E s \in MeasureStmts(p.regs) : Add(s)
              \/ \E s \in IfStmts(p.regs) : Add(s)
Next == ChooseN \/ AddGate \/ ChooseRegs \/ AddStmt

\* ---------- invariants: circuits ----------
InCirc == mode = "circ"
RoundTripInv == InCirc => RoundTrip(c)
\* the alphabet over the property's kinds only produces circuits of the property's domain (RoundTrip is not vacuous)
DomainCovered == (InCirc /\ \A i \in 1..Len(c.gates) : c.gates[i].t \in QPropKinds /\ c.gates[i].vars = <<>>) => QInDomain(c)
\* a circuit with pp / measure_r prints a gate name the front end does not declare: the text is rejected as a whole
OutsideInv == (InCirc /\ \E i \in 1..Len(c.gates) : c.gates[i].t \in {"ParityPhase", "MeasureReset"}) => QParse(QPrint(c)) = [res |-> "err"]
PrintShape == InCirc => LET q == QPrint(c) IN /\ Len(q.regs) = 1 /\ q.regs[1].size = c.n /\ Len(q.stmts) = Len(c.gates)
                                                 /\ \A i \in 1..Len(c.gates) : (Len(q.stmts[i].param) = 1) = QPrintsParam(c.gates[i].t)

\* ---------- invariants: programs ----------
InProg == mode = "prog"
OffsetsInOrder == InProg =>
  LET d == QDecl(p.regs)
      R == QRefs(p.regs) IN
  /\ Len(d.off) = Len(p.regs) /\ d.next = QSumSizes(p.regs) /\ d.off[1] = 0
  /\ \A i \in 1..(Len(p.regs) - 1) : d.off[i + 1] = d.off[i] + p.regs[i].size          \* consecutive, in declaration order
  /\ {QQubit(d, a) : a \in R} = 0..(d.next - 1)                                        \* onto the qubits
  /\ \A a, b \in R : (a[1] < b[1] \/ (a[1] = b[1] /\ a[2] < b[2])) => QQubit(d, a) < QQubit(d, b)
ErrAbsorbing == InProg => \A k \in 0..Len(p.stmts) : (QParse(QPrefix(p, k)).res = "err") => (QParse(p) = [res |-> "err"])
\* accepted programs: one gate per statement, in order, of the kind the name table gives, on the declared qubits
NothingDropped == (InProg /\ QParse(p).res = "ok") =>
  LET r == QParse(p).circ
      d == QDecl(p.regs) IN
  /\ r.n = QSumSizes(p.regs) /\ Len(r.gates) = Len(p.stmts)
  /\ \A i \in 1..Len(p.stmts) :
       LET s == p.stmts[i]
           g == r.gates[i] IN
       /\ g.t \in GateKinds /\ QPhOK(g.ph) /\ QDistinct(g.qs) /\ \A j \in 1..Len(g.qs) : g.qs[j] \in 0..(r.n - 1)
       /\ (s.s = "gate") => (g.t = KindOfName(s.name) /\ g.qs = [j \in 1..Len(s.args) |-> QQubit(d, s.args[j])])
UnsupportedIsErr == (InProg /\ \E i \in 1..Len(p.stmts) : QUnsupported(p.stmts[i])) => QParse(p) = [res |-> "err"]
SupportedIsOk == (InProg /\ QInProperty(p) /\ \A i \in 1..Len(p.stmts) : ~QUnsupported(p.stmts[i])) => QParse(p).res = "ok"
\* printing what was parsed and parsing again gives the same circuit (several registers are merged into q)
Reprint == (InProg /\ QParse(p).res = "ok" /\ QInDomain(QParse(p).circ)) => QParse(QPrint(QParse(p).circ)) = QParse(p)

PHS_q == {<<1, 4>>, <<-1, 2>>, <<1, 1>>, <<1, 3>>, <<-5, 16>>, <<7, 12>>}
PHS_t == {<<1, 4>>, <<-3, 4>>, <<1, 1>>, <<-2, 3>>, <<15, 16>>, <<-1, 7>>, <<0, 1>>}
PARS_q == {<<3, 4>>, <<3, 2>>, <<2, 4>>}
PARS_t == {<<-1, 16>>, <<7, 2>>, <<-4, 4>>}
=============================================================================
