CONSTANTS K = 3
TPH = {1, 7}
SHAPE = "ts"
NB = 1
HUBPH = {0}
EXTRA = TRUE
CANDMAX = 3
ALLORD = TRUE
INIT Init
NEXT Next
INVARIANT StepSumOK
CHECK_DEADLOCK FALSE
