CONSTANTS NQ = 2
MAXLEN = 1
ONEQ = {"T", "NOT", "HAD"}
TWOQ = {"CNOT", "CZ", "SWAP"}
PHS = {}
INIT Init
NEXT Next
INVARIANT Composite
INVARIANT DefOK
INVARIANT GadgetIsPhase
CHECK_DEADLOCK FALSE
