CONSTANTS K = 2
TYS = {"Z","X","Hbox"}
PHS = {0,1,2,3,4,5,6,7}
ETS = {"N","H"}
NB = 2
VARS = {}
BB = FALSE
SCN = 1
CMS = {"rows"}
MUT = "none"
INIT Init
NEXT Next
INVARIANT NoPanicRT
INVARIANT DocOK
INVARIANT RoundTripIso
INVARIANT ScalarRT
INVARIANT DecodeOrder
INVARIANT IsoAgree
INVARIANT IsoSharp
CHECK_DEADLOCK FALSE
