CONSTANTS K = 3
TYS = {"Z","X"}
PHS = {0,1,2,4}
ETS = {"N","H"}
NB = 1
VARS = {}
BB = FALSE
STRAT = "full"
SPECIFICATION Spec
INVARIANT Sound
INVARIANT NoPanicInv
INVARIANT StaysWF
PROPERTY Terminates
CHECK_DEADLOCK FALSE
