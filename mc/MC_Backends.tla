----------------------------- MODULE MC_Backends -----------------------------
(* C09 on the specification: under every sequence of editing operations (bounded length) the
   vector machine and the hash machine keep their internal invariants and show the same graph as
   the abstract model, in tag space; compaction preserves it. *)
EXTENDS Backends
CONSTANTS MAXOPS, MAXTAG, MAXNAME
VARIABLES vm, hm, am, nt, nops, ok
vars == <<vm, hm, am, nt, nops, ok>>
Init == vm = VecNew /\ hm = HashNew /\ am = AbsNew /\ nt = 1 /\ nops = 0 /\ ok = TRUE
D(ty, tag) == [ty |-> ty, tag |-> tag]
Tags == am.vs
Step == nops < MAXOPS /\ nops' = nops + 1
SameLists(m, tags) == [k \in 1..Len(tags) |-> tags[k]]
\* every operation with its arguments explicit (OpXP), so that MC_BackendsReplay can log which one was taken
OpAddP(ty) == /\ Step /\ nt <= MAXTAG
              /\ vm' = VAdd(vm, D(ty, nt)).m /\ hm' = HAdd(hm, D(ty, nt)).m /\ am' = AAdd(am, nt, D(ty, nt))
              /\ nt' = nt + 1 /\ UNCHANGED ok
OpAdd == \E ty \in {"Z", "B"} : OpAddP(ty)
\* named insertion with a name that has the same status in both backends: same success/failure
OpAddNamedP(n) == /\ Step /\ nt <= MAXTAG /\ VLive(vm, n) = HLive(hm, n)
                  /\ LET rv == VAddNamed(vm, n, D("Z", nt))  rh == HAddNamed(hm, n, D("Z", nt)) IN
                       /\ vm' = rv.m /\ hm' = rh.m /\ ok' = (ok /\ rv.ret = rh.ret /\ (rv.ret = "ok") = ~VLive(vm, n))
                       /\ am' = IF rv.ret = "ok" THEN AAdd(am, nt, D("Z", nt)) ELSE am
                  /\ nt' = nt + 1
OpAddNamed == \E n \in 0..MAXNAME : OpAddNamedP(n)
\* valid usage: a vertex listed as input/output is taken off those lists before it is deleted (the code
\* keeps dangling names in the lists, and the vector backend would later hand the name to a new vertex)
Removable == Tags \ (ToSet(am.ins) \cup ToSet(am.outs))
OpRemoveP(t) == /\ Step /\ t \in Removable
                /\ vm' = VRemove(vm, VNameOf(vm, t)).m /\ hm' = HRemove(hm, HNameOf(hm, t)).m /\ am' = ARemove(am, t)
                /\ UNCHANGED <<nt, ok>>
OpRemove == \E t \in Removable : OpRemoveP(t)
OpAddEdgeP(s, t, ety) == /\ Step /\ s # t /\ {s, t} \notin DOMAIN am.et
                         /\ vm' = VAddEdge(vm, VNameOf(vm, s), VNameOf(vm, t), ety).m
                         /\ hm' = HAddEdge(hm, HNameOf(hm, s), HNameOf(hm, t), ety).m /\ am' = AAddEdge(am, s, t, ety)
                         /\ UNCHANGED <<nt, ok>>
OpAddEdge == \E s, t \in Tags : \E ety \in {"N", "H"} : OpAddEdgeP(s, t, ety)
OpRemoveEdgeP(e) == /\ Step /\ LET s == Min(e)  t == Max(e) IN
                       /\ vm' = VRemoveEdge(vm, VNameOf(vm, s), VNameOf(vm, t)).m
                       /\ hm' = HRemoveEdge(hm, HNameOf(hm, s), HNameOf(hm, t)).m /\ am' = ARemoveEdge(am, s, t)
                    /\ UNCHANGED <<nt, ok>>
OpRemoveEdge == \E e \in DOMAIN am.et : OpRemoveEdgeP(e)
Flip(e) == IF am.et[e] = "N" THEN "H" ELSE "N"
OpSetETypeP(e) == /\ Step /\ LET s == Max(e)  t == Min(e)  ety == Flip(e) IN
                     /\ vm' = VSetEType(vm, VNameOf(vm, s), VNameOf(vm, t), ety).m
                     /\ hm' = HSetEType(hm, HNameOf(hm, s), HNameOf(hm, t), ety).m /\ am' = AAddEdge(am, s, t, ety)
                  /\ UNCHANGED <<nt, ok>>
OpSetEType == \E e \in DOMAIN am.et : OpSetETypeP(e)
OpSetBoundaryP(i, o) == /\ Step
                        /\ vm' = [vm EXCEPT !.ins = <<VNameOf(vm, i)>>, !.outs = <<VNameOf(vm, o)>>]
                        /\ hm' = [hm EXCEPT !.ins = <<HNameOf(hm, i)>>, !.outs = <<HNameOf(hm, o)>>]
                        /\ am' = [am EXCEPT !.ins = <<i>>, !.outs = <<o>>]
                        /\ UNCHANGED <<nt, ok>>
OpSetBoundary == \E i, o \in Tags : OpSetBoundaryP(i, o)
\* the code's pack renumbers inputs/outputs through a table that is only meaningful for live names
BoundaryLive == (\A k \in 1..Len(am.ins) : am.ins[k] \in Tags) /\ (\A j \in 1..Len(am.outs) : am.outs[j] \in Tags)
OpPackP(force) == /\ Step /\ BoundaryLive
                  /\ vm' = VPack(vm, force).m /\ hm' = HPack(hm, force).m
                  /\ UNCHANGED <<am, nt, ok>>
OpPack == \E force \in BOOLEAN : OpPackP(force)
Next == OpAdd \/ OpAddNamed \/ OpRemove \/ OpAddEdge \/ OpRemoveEdge \/ OpSetEType \/ OpSetBoundary \/ OpPack
VInv == VecInv(vm)
HInv == HashInv(hm)
AbsObs == [vs |-> am.vs, data |-> am.data, et |-> am.et,
           ins |-> [k \in 1..Len(am.ins) |-> IF am.ins[k] \in am.vs THEN am.ins[k] ELSE -1],
           outs |-> [k \in 1..Len(am.outs) |-> IF am.outs[k] \in am.vs THEN am.outs[k] ELSE -1]]
Refines == VObs(vm) = AbsObs /\ HObs(hm) = AbsObs
Counts == vm.numv = Cardinality(am.vs) /\ hm.numv = vm.numv /\ vm.nume = Cardinality(DOMAIN am.et) /\ hm.nume = vm.nume
SameOutcome == ok
=============================================================================
