------------------------------- MODULE Trace_Eq -------------------------------
(* C12: validation of recorded answers of the equality checkers.
   pairc : two circuits; S1 = CircSem(c1), S2 = CircSem(c2) computed once (ground truth)
   pairg : two unitary DIAGRAMS that are not plain to_graph outputs (simplified by one of the strategies, built with the
           simplify-while-building / post-selected-CCZ options, colour-changed, renamed, multiplied by the phase i);
           ground truth S1 = Den(g1), S2 = Den(g2): the specification's reference denotation of the logged diagrams
   pairp : a circuit c1 and the circuit c1 ; x q ; rz(n/d) q ; x q ; rz(n/d) q with n/d NOT a multiple of 1/4. Since
           X Rz(t) X Rz(t) = e^{i t} I for every t (MC_Equal checks the identity for the eight multiples of pi/4), the pair is
           by construction equal up to the global phase e^{i pi n/d} and not equal exactly; its scalar is outside Z[omega], so
           the ground truth is this construction, not CircSem. Both argument orders occur.
           L2 DefGen: a definite answer must be "equal" when a global phase is allowed and "notequal" when it is not;
           the tensor comparisons must answer false, the arity tests true
   pairn : two circuits with ancilla initialisation / post-selection: circuit-derived maps n -> m that are not square and not
           unitary. S1, S2 = the tensors of CircSemV, arity = number of open inputs and outputs. The tensor-based checkers and the
           arity tests are judged in full (DefTensor, DimOK); of the rewriting-based checker only "not equal" answers (DefNotEqual).
   eq    : equal_circuit_with_options / equal_circuit / equal_graph_with_options / equal_graph
           (answer equal/notequal/unknown; phase = was a global phase allowed, TRUE for the two default wrappers)
           L2 Def: a definite answer is never wrong
   eqt   : equal_circuit_tensor / equal_graph_tensor     L2 DefTensor: true exactly for identical tensors
   eqdim : equal_circuit_dim / equal_graph_dim           L2: true exactly for equal arities *)
EXTENDS TraceLib, ToGraph, Equality, FiniteSets, FiniteSetsExt
VARIABLES l, ar, s1, s2, gen, nonu, viol, drift, stats
vars == <<l, ar, s1, s2, gen, nonu, viol, drift, stats>>
Init == l = 1 /\ ar = TRUE /\ s1 = <<>> /\ s2 = <<>> /\ gen = FALSE /\ nonu = FALSE /\ viol = <<>> /\ drift = <<>>
        /\ stats = [pairs |-> 0, answers |-> 0, equal |-> 0, notequal |-> 0, unknown |-> 0, nontrivial |-> 0,
                    graph_pairs |-> 0, generic_phase_pairs |-> 0, graph_answers |-> 0, default_wrapper |-> 0, dim_calls |-> 0,
                    nonunitary_pairs |-> 0, nonunitary_equal_answers |-> 0, nonunitary_rewriting_panics |-> 0]
Arity == ar
\* the pair differs exactly by a global phase that is not 1
DefGen(ret, phase) == ret = "unknown" \/ (IF phase THEN ret = "equal" ELSE ret = "notequal")
B(x) == IF x THEN 1 ELSE 0
Step(e) ==
  CASE e.k = "pairc" ->
         LET a == CircFromAbs(e.c1)  b == CircFromAbs(e.c2) IN
         /\ ar' = (a.n = b.n) /\ s1' = CircSem(a) /\ s2' = CircSem(b) /\ gen' = FALSE /\ nonu' = FALSE
         /\ stats' = [stats EXCEPT !.pairs = @ + 1] /\ UNCHANGED <<viol, drift>>
    [] e.k = "pairn" ->
         LET a == CircSemV(CircFromAbs(e.c1), <<>>)  b == CircSemV(CircFromAbs(e.c2), <<>>) IN
         /\ ar' = (Len(a.inq) = Len(b.inq) /\ Len(a.outq) = Len(b.outq)) /\ s1' = a.T /\ s2' = b.T /\ gen' = FALSE /\ nonu' = TRUE
         /\ stats' = [stats EXCEPT !.pairs = @ + 1, !.nonunitary_pairs = @ + 1] /\ UNCHANGED <<viol, drift>>
    [] e.k = "pairp" ->
         /\ ar' = TRUE /\ s1' = <<>> /\ s2' = <<>> /\ gen' = TRUE /\ nonu' = FALSE
         /\ viol' = IF (e.ph[1] * 4) % e.ph[2] # 0 THEN viol ELSE Append(viol, <<l, "HarnessGenericPhase">>)
         /\ stats' = [stats EXCEPT !.pairs = @ + 1, !.generic_phase_pairs = @ + 1] /\ UNCHANGED <<drift>>
    [] e.k = "pairg" ->
         LET a == FromAbs(e.g1)  b == FromAbs(e.g2) IN
         /\ ar' = SameArity(a, b) /\ s1' = Den(a) /\ s2' = Den(b) /\ gen' = FALSE /\ nonu' = FALSE
         /\ stats' = [stats EXCEPT !.pairs = @ + 1, !.graph_pairs = @ + 1] /\ UNCHANGED <<viol, drift>>
    [] e.k = "eq" ->
         \* the rewriting-based checker composes g1^dagger with g2 by plug(); on maps that are not unitary the simplified operand can be a
         \* cap (a wire joining two of its own inputs), where plug() panics (the recorded C11 finding): outside what C12 states, counted only
         /\ viol' = IF e.ret = "panic" THEN (IF nonu THEN viol ELSE Append(viol, <<l, "NoPanic", e.fn>>))
                    ELSE IF gen THEN (IF DefGen(e.ret, e.phase) THEN viol ELSE Append(viol, <<l, "DefGen", e.fn, e.ret>>))
                    \* maps that are not unitary: the rewriting-based test (S1^dagger ; S2 = identity) presupposes unitaries, so an "equal"
                    \* answer is only counted; "not equal" must still be right: the arities differ or the tensors do
                    ELSE IF nonu THEN (IF e.ret = "notequal" => (~Arity \/ s1 # s2) THEN viol ELSE Append(viol, <<l, "DefNotEqual", e.fn, e.ret>>))
                    ELSE IF Def(e.ret, Arity, s1, s2, e.phase) THEN viol ELSE Append(viol, <<l, "Def", e.fn, e.ret>>)
         \* information only: the checker could not decide a pair that is in fact equal / different
         /\ drift' = IF ~gen /\ ~nonu /\ e.ret = "unknown" /\ Arity /\ s1 = s2 THEN Append(drift, <<l, "UnknownButEqual">>) ELSE drift
         /\ stats' = [stats EXCEPT !.answers = @ + 1, !.equal = @ + (IF e.ret = "equal" THEN 1 ELSE 0),
                                   !.notequal = @ + (IF e.ret = "notequal" THEN 1 ELSE 0),
                                   !.unknown = @ + (IF e.ret = "unknown" THEN 1 ELSE 0),
                                   !.nontrivial = @ + (IF e.ret # "unknown" THEN 1 ELSE 0),
                                   !.default_wrapper = @ + B(e.fn \in {"graph_default", "circuit_default"}),
                                   !.graph_answers = @ + B(e.fn \in {"graph", "graph_default", "graph_simplified"}),
                                   !.nonunitary_equal_answers = @ + B(nonu /\ e.ret = "equal"),
                                   !.nonunitary_rewriting_panics = @ + B(nonu /\ e.ret = "panic")]
         /\ UNCHANGED <<ar, s1, s2, gen, nonu>>
    [] e.k = "eqt" ->
         /\ viol' = IF e.res = "panic" THEN Append(viol, <<l, "NoPanic", e.fn>>)
                    ELSE IF gen THEN (IF e.ret = FALSE THEN viol ELSE Append(viol, <<l, "DefTensorGen", e.fn>>))
                    ELSE IF DefTensor(e.ret, Arity, s1, s2) THEN viol ELSE Append(viol, <<l, "DefTensor", e.fn>>)
         /\ stats' = [stats EXCEPT !.answers = @ + 1, !.nontrivial = @ + 1] /\ UNCHANGED <<ar, s1, s2, gen, nonu, drift>>
    [] e.k = "eqdim" ->
         /\ viol' = IF e.res = "ok" /\ e.ret = Arity THEN viol ELSE Append(viol, <<l, "DimOK", e.fn>>)
         /\ stats' = [stats EXCEPT !.answers = @ + 1, !.dim_calls = @ + 1] /\ UNCHANGED <<ar, s1, s2, gen, nonu, drift>>
Next == \/ /\ l <= NLines /\ Step(Rec[l]) /\ l' = l + 1
        \/ /\ l = NLines + 1 /\ Report(l, viol, drift, stats) /\ l' = l + 1 /\ UNCHANGED <<ar, s1, s2, gen, nonu, viol, drift, stats>>
=============================================================================
