------------------------------- MODULE Trace_Eq -------------------------------
(* C12: validation of recorded answers of the equality checkers.
   pairc : two circuits; S1 = CircSem(c1), S2 = CircSem(c2) computed once (ground truth)
   eq    : equal_circuit_with_options / equal_graph_with_options (answer equal/notequal/unknown)
           L2 Def: a definite answer is never wrong
   eqt   : equal_circuit_tensor / equal_graph_tensor     L2 DefTensor: true exactly for identical tensors
   eqdim : equal_circuit_dim                             L2: true exactly for equal arities *)
EXTENDS TraceLib, ToGraph, Equality, FiniteSets, FiniteSetsExt
VARIABLES l, c1, c2, s1, s2, viol, drift, stats
vars == <<l, c1, c2, s1, s2, viol, drift, stats>>
E0 == [n |-> 0, gates |-> <<>>]
Init == l = 1 /\ c1 = E0 /\ c2 = E0 /\ s1 = <<>> /\ s2 = <<>> /\ viol = <<>> /\ drift = <<>>
        /\ stats = [pairs |-> 0, answers |-> 0, equal |-> 0, notequal |-> 0, unknown |-> 0, nontrivial |-> 0]
Arity == c1.n = c2.n
Step(e) ==
  CASE e.k = "pairc" ->
         LET a == CircFromAbs(e.c1)  b == CircFromAbs(e.c2) IN
         /\ c1' = a /\ c2' = b /\ s1' = CircSem(a) /\ s2' = CircSem(b)
         /\ stats' = [stats EXCEPT !.pairs = @ + 1] /\ UNCHANGED <<viol, drift>>
    [] e.k = "eq" ->
         /\ viol' = IF e.ret = "panic" THEN Append(viol, <<l, "NoPanic", e.fn>>)
                    ELSE IF Def(e.ret, Arity, s1, s2, e.phase) THEN viol ELSE Append(viol, <<l, "Def", e.fn, e.ret>>)
         \* information only: the checker could not decide a pair that is in fact equal / different
         /\ drift' = IF e.ret = "unknown" /\ Arity /\ s1 = s2 THEN Append(drift, <<l, "UnknownButEqual">>) ELSE drift
         /\ stats' = [stats EXCEPT !.answers = @ + 1, !.equal = @ + (IF e.ret = "equal" THEN 1 ELSE 0),
                                   !.notequal = @ + (IF e.ret = "notequal" THEN 1 ELSE 0),
                                   !.unknown = @ + (IF e.ret = "unknown" THEN 1 ELSE 0),
                                   !.nontrivial = @ + (IF e.ret # "unknown" THEN 1 ELSE 0)]
         /\ UNCHANGED <<c1, c2, s1, s2>>
    [] e.k = "eqt" ->
         /\ viol' = IF e.res = "panic" THEN Append(viol, <<l, "NoPanic", e.fn>>)
                    ELSE IF DefTensor(e.ret, Arity, s1, s2) THEN viol ELSE Append(viol, <<l, "DefTensor", e.fn>>)
         /\ stats' = [stats EXCEPT !.answers = @ + 1, !.nontrivial = @ + 1] /\ UNCHANGED <<c1, c2, s1, s2, drift>>
    [] e.k = "eqdim" ->
         /\ viol' = IF e.res = "ok" /\ e.ret = Arity THEN viol ELSE Append(viol, <<l, "DimOK">>)
         /\ stats' = [stats EXCEPT !.answers = @ + 1] /\ UNCHANGED <<c1, c2, s1, s2, drift>>
Next == \/ /\ l <= NLines /\ Step(Rec[l]) /\ l' = l + 1
        \/ /\ l = NLines + 1 /\ Report(l, viol, drift, stats) /\ l' = l + 1 /\ UNCHANGED <<c1, c2, s1, s2, viol, drift, stats>>
=============================================================================
