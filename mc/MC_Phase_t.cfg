CONSTANTS N = 90
D = 30
N2 = 21
D2 = 8
KM = 24
M = 30
KU = 4
S3 <- S3_t
INIT Init
NEXT Next
INVARIANT NormImplIsNorm
INVARIANT CanonicalRange
INVARIANT NormUnique
INVARIANT EqualModTwo
INVARIANT IdentityLaw
INVARIANT InverseLaw
INVARIANT Classify
INVARIANT ClassInvariant
INVARIANT MulIntIsRepeatedAdd
INVARIANT DivIntCanonical
INVARIANT LimitImplIsDecl
INVARIANT LimitOnPhases
INVARIANT Commutative
INVARIANT SubIsAddNeg
INVARIANT AgreesWithRationals
INVARIANT RingCanonical
INVARIANT Associative
CHECK_DEADLOCK FALSE
