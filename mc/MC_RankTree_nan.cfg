CONSTANTS GRAPHS <- GraphsNaN
NORMALIZE = FALSE
INIT Init
NEXT NextA
INVARIANT InvNoPanic
INVARIANT InvValidTree
INVARIANT InvCacheCoherent
INVARIANT InvWidthOK
INVARIANT InvAnnealerOK
CHECK_DEADLOCK FALSE
