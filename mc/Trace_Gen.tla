------------------------------ MODULE Trace_Gen ------------------------------
(* C19: recorded builds of the real workload generators validated against the contracts of spec/Gen.tla.
   begin : header of a group (one generator x one parameter setting, several seeds); forgets `seen`
   build : {"gen", "seed", "params" (small integers, probabilities in percent), "res": "ok" | "panic",
            "c": circuit (abs JSON of harness/src/circ.rs) | "g": diagram (abs()), "shift": [bits] (hidden shift),
            "be": backend (stab_state), "again_equal": the harness's comparison (PartialEq on Circuit, abs() equality on
            graphs) of this build with a second build from a re-seeded builder with identical parameters,
            "keep": TRUE on the sampled builds whose payload TLC itself remembers: the second build of such a pair is
            logged as a build event of its own with the same key}
   L2 (violations):
     NoPanic            a build with admissible parameters (Gen!...Admissible) panicked
     RandomCircuitOK / HiddenShiftShape / HiddenShiftPromise / PauliGadgetOK / StabStateOK / SurfaceCodeOK
                        the generator's contract, evaluated by TLC on the logged object; HiddenShiftPromise is
                        |<shift| C |0..0>|^2 = 1 with the specification's gate semantics (Gen!CircApplyZero: the state
                        vector, 2^n entries per gate; measured: < 0.2 s for 56 gates on 6 qubits), StabStateOK
                        contains SUM_b |Den(g)[b]|^2 = 1 with the reference denotation
     HiddenShiftPromiseFull  the same promise read off the full tensor Circuit!CircSem (4^n entries per gate; measured
                        10 s for 56 gates on 6 qubits), only on the builds the harness marks "full"
     AgainEqual         the harness saw two different objects for the same (seed, parameters)
     Deterministic      two build events of this group with equal (generator, backend, seed, parameters) carry
                        different payloads (compared by TLC)
   Builds without .seed() (harness option --api, audit #22; fields "unseeded", "default", "sem"): an unseeded build cannot be
   compared with anything (AgainEqual / Deterministic are skipped) but must satisfy the same contract for the parameter values
   its builder holds (read back from the builder's public fields); "sem" = FALSE skips the semantic hidden-shift promise
   (40-qubit default instance: no 2^40 state vector).
     DefaultAdmissible  a builder taken straight from Default / Circuit::random_*() / ::new(), no parameter set by the caller,
                        holds admissible parameters (so that NoPanic and the contract apply to what every user gets first)
   RandomPauliGadgetCircuitBuilder::weight(w) is logged with the parameters it means (min = max = w) under the key of a
   min_weight(w).max_weight(w) build of the same group: PauliGadgetOK judges the weights, Deterministic the equality.
   L1 (drift only): PauliGadgetAsBuilt (sorted qubit lists, ascending basis layer, non-zero phase: what the builder does
     beyond the property's text), SurfaceCodeAllSyndromes (every syndrome qubit measured once per round).
   Phases of Pauli-gadget circuits are arbitrary fractions of pi: they are read as raw <<num, den>> pairs
   (GateFromAbsRaw), never through Circuit!PhU. *)
EXTENDS TraceLib, Gen

VARIABLES l, seen, viol, drift, stats
vars == <<l, seen, viol, drift, stats>>
Init == l = 1 /\ seen = <<>> /\ viol = <<>> /\ drift = <<>>
        /\ stats = [groups |-> 0, builds |-> 0, random_circuit |-> 0, hidden_shift |-> 0, pauli_gadget |-> 0, stab_state |-> 0,
                    surface_code |-> 0, panics_admissible |-> 0, rejected_inadmissible |-> 0, pairs_by_tlc |-> 0,
                    gates |-> 0, nontrivial |-> 0, unseeded |-> 0, default_builds |-> 0, via_weight |-> 0, promise_skipped |-> 0]

GateFromAbsRaw(j) == [t |-> j.t, qs |-> j.qs, ph |-> <<j.ph[1], j.ph[2]>>, vars |-> ParFromAbs(j.vars, FALSE)]
CircFromAbsRaw(j) == [n |-> j.n, gates |-> [i \in 1..Len(j.gates) |-> GateFromAbsRaw(j.gates[i])]]

Admissible(e) ==
  CASE e.gen = "random_circuit" -> RandomCircuitAdmissible(e.params)
    [] e.gen = "hidden_shift"   -> HiddenShiftAdmissible(e.params)
    [] e.gen = "pauli_gadget"   -> PauliGadgetAdmissible(e.params)
    [] e.gen = "stab_state"     -> StabStateAdmissible(e.params)
    [] e.gen = "surface_code"   -> SurfaceCodeAdmissible(e.params)
    [] OTHER -> FALSE
Check1(ok, name) == IF ok THEN <<>> ELSE <<<<l, name>>>>
\* events recorded before the option --api existed do not carry these fields
Unseeded(e) == Has(e, "unseeded") /\ e.unseeded
IsDefault(e) == Has(e, "default") /\ e.default
Sem(e) == Has(e, "sem") => e.sem

\* failed contract predicates of an "ok" build (only demanded for admissible parameters)
Contract(e) ==
  CASE e.gen = "random_circuit" ->
         Check1(CircOK(e.c) /\ RandomCircuitOK(e.params, CircFromAbs(e.c)), "RandomCircuitOK")
    [] e.gen = "hidden_shift" ->
         IF ~CircOK(e.c) THEN Check1(FALSE, "HiddenShiftShape")
         ELSE LET c == CircFromAbs(e.c) IN
              Check1(HiddenShiftShape(e.params, c, e.shift), "HiddenShiftShape")
              \o Check1(Sem(e) => HiddenShiftPromise(c, e.shift), "HiddenShiftPromise")
              \o Check1(e.full => HiddenShiftPromiseFull(c, e.shift), "HiddenShiftPromiseFull")
    [] e.gen = "pauli_gadget" ->
         Check1(PauliGadgetOK(e.params, CircFromAbsRaw(e.c)), "PauliGadgetOK")
    [] e.gen = "stab_state" ->
         Check1(e.scok /\ AbsOK(e.g) /\ StabStateOK(e.params, FromAbs(e.g)), "StabStateOK")
    [] e.gen = "surface_code" ->
         Check1(CircOK(e.c) /\ SurfaceCodeOK(e.params, CircFromAbs(e.c)), "SurfaceCodeOK")
Drift(e) ==
  CASE e.gen = "pauli_gadget" -> Check1(PauliGadgetAsBuilt(e.params, CircFromAbsRaw(e.c)), "PauliGadgetAsBuilt")
    [] e.gen = "surface_code" -> Check1(SurfaceCodeAllSyndromes(e.params, CircFromAbsRaw(e.c)), "SurfaceCodeAllSyndromes")
    [] OTHER -> <<>>
Payload(e) == IF e.gen = "stab_state" THEN <<e.g>> ELSE IF e.gen = "hidden_shift" THEN <<e.c, e.shift>> ELSE <<e.c>>
Size(e) == IF e.gen = "stab_state" THEN Len(e.g.e) ELSE Len(e.c.gates)
Bump(s, e) == [s EXCEPT !.builds = @ + 1,
                        !.random_circuit = @ + (IF e.gen = "random_circuit" THEN 1 ELSE 0),
                        !.hidden_shift = @ + (IF e.gen = "hidden_shift" THEN 1 ELSE 0),
                        !.pauli_gadget = @ + (IF e.gen = "pauli_gadget" THEN 1 ELSE 0),
                        !.stab_state = @ + (IF e.gen = "stab_state" THEN 1 ELSE 0),
                        !.surface_code = @ + (IF e.gen = "surface_code" THEN 1 ELSE 0)]

Step(e) ==
  CASE e.k = "begin" ->
         /\ seen' = <<>> /\ stats' = [stats EXCEPT !.groups = @ + 1] /\ UNCHANGED <<viol, drift>>
    [] e.k = "build" ->
         LET adm == Admissible(e)
             key == <<e.gen, e.be, e.seed, e.params>>
             dfl == Check1(IsDefault(e) => adm, "DefaultAdmissible")
         IN IF e.res # "ok" THEN
              /\ viol' = (IF adm THEN <<<<l, "NoPanic", e.gen>>>> ELSE <<>>) \o dfl \o viol
              /\ stats' = [Bump(stats, e) EXCEPT !.panics_admissible = @ + (IF adm THEN 1 ELSE 0),
                                                 !.rejected_inadmissible = @ + (IF adm THEN 0 ELSE 1)]
              /\ UNCHANGED <<seen, drift>>
            ELSE IF ~adm THEN       \* the property promises nothing outside the admissible parameters
              /\ viol' = dfl \o viol
              /\ stats' = Bump(stats, e) /\ UNCHANGED <<seen, drift>>
            ELSE IF Unseeded(e) THEN    \* nothing to compare an unseeded object with: the contract only
              /\ viol' = Contract(e) \o viol
              /\ drift' = Drift(e) \o drift
              /\ stats' = [Bump(stats, e) EXCEPT !.gates = @ + Size(e), !.unseeded = @ + 1,
                                                 !.default_builds = @ + (IF IsDefault(e) THEN 1 ELSE 0),
                                                 !.promise_skipped = @ + (IF Sem(e) THEN 0 ELSE 1),
                                                 !.nontrivial = @ + (IF Size(e) > 0 THEN 1 ELSE 0)]
              /\ UNCHANGED seen
            ELSE
              LET pay == Payload(e)
                  known == key \in DOMAIN seen
              IN /\ viol' = Contract(e) \o Check1(e.again_equal, "AgainEqual")
                            \o Check1(known => seen[key] = pay, "Deterministic") \o viol
                 /\ drift' = Drift(e) \o drift
                 /\ seen' = IF e.keep /\ ~known THEN (key :> pay) @@ seen ELSE seen
                 /\ stats' = [Bump(stats, e) EXCEPT !.pairs_by_tlc = @ + (IF known THEN 1 ELSE 0),
                                                    !.gates = @ + Size(e),
                                                    !.via_weight = @ + (IF Has(e, "via_weight") THEN 1 ELSE 0),
                                                    !.nontrivial = @ + (IF Size(e) > 0 THEN 1 ELSE 0)]
Next == \/ /\ l <= NLines /\ Step(Rec[l]) /\ l' = l + 1
        \/ /\ l = NLines + 1 /\ Report(l, viol, drift, stats) /\ l' = l + 1 /\ UNCHANGED <<seen, viol, drift, stats>>
=============================================================================
