CONSTANTS K = 3
TYS = {"Z","X"}
PHS = {0,1,4}
ETS = {"N","H"}
NB = 1
VARS = {}
BB = FALSE
STRAT = "full"
INIT Init
NEXT Next
INVARIANT Sound
INVARIANT NoPanicInv
INVARIANT StaysWF
CHECK_DEADLOCK FALSE
