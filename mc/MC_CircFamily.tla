---------------------------- MODULE MC_CircFamily ----------------------------
(* Binding of the INPUT family of circuits: MC_ToGraph builds every admissible circuit over an alphabet gate by gate
   (ancilla initialisation only as a qubit's first operation, nothing on a removed qubit); circ::enum_circuits of the
   harness enumerates "the same" family for the traces.  TLC prints every circuit (one line per distinct state), the
   harness prints its enumeration (`qxv record circfamily --enum n,maxlen,alphabet`), bin/vlib.py requires set equality. *)
EXTENDS MC_ToGraph, Json
PPQ_pairs2 == {<<0, 1>>, <<1, 0>>}
Emit == PrintT(<<"REPLAY", ToJson([n |-> c.n, gates |-> [i \in 1..Len(c.gates) |-> [t |-> c.gates[i].t, qs |-> c.gates[i].qs, ph |-> c.gates[i].ph]]])>>)
=============================================================================
