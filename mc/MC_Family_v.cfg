CONSTANTS K = 2
TYS = {"Z","X"}
PHS = {0,1,4}
ETS = {"N","H"}
NB = 1
VARS = {0,1}
BB = FALSE
INIT Init
NEXT Next
INVARIANT Emit
CHECK_DEADLOCK FALSE
