INIT Init
NEXT Next
CHECK_DEADLOCK FALSE
