----------------------------- MODULE Trace_Phase -----------------------------
(* C16: executions of quizx::phase::Phase (recorded by harness/src/eng_phase.rs) validated with the
   definitions of spec/Phase.tla.  The machine has registers 0..regs-1 holding phases; the spec's
   register file follows the log (reg'[r] = the logged result).  Every event also carries the values
   av, bv the code held in its operand registers, so that a single event is self-contained (replay of
   one violation = `begin` + the event); each logged result is judged against the spec's own value
   computed from those operands, and an operand that differs from the spec's register is L1 drift
   ("Registers"; it cannot happen in a complete trace, it does in a two-line replay).

   Events (one ndjson line each; phases are arrays [n, d]):
     begin  {regs, mode}                 new execution, all registers 0
     new    {r, n, d, via, res, out}     reg[r] := Phase::new(n/d); d may be negative, n/d unreduced;
                                         via = ratio (Rational64::new) | tuple (From<(i64,i64)>) | int (From<i64>)
     add    {r, a, b, av, bv, asg, res, out}   reg[r] := reg[a] + reg[b]   (asg: through +=)
     sub    {r, a, b, av, bv, asg, res, out}   reg[r] := reg[a] - reg[b]   (asg: through -=)
     neg    {r, a, av, res, out}               reg[r] := -reg[a]
     mulint {r, a, av, c, asg, res, out}       reg[r] := reg[a] * c        (c: i64; asg: through *=)
     limit  {r, a, av, m, res, out}            reg[r] := reg[a].limit_denominator(m), m >= 2
     preds  {a, av, res, pauli, clifford, proper, t, zero, one}   the six predicates of reg[a]
     cmp    {a, b, av, bv, res, eq, ne_consistent}   reg[a] == reg[b]  (the harness builds reg[b] as another
                                         spelling of the same class: + 2t, common factor, negative denominator)
     f64    {r, n, d, exact, src, fs, res, small, out, fok [, outs, bigok]}
                                         p := Phase::from_f64(f); fok = |p.to_f64() - f mod 2| <= 1e-12, computed by
                                         the harness (floats are outside TLA+); f = n/d exactly when `exact`;
                                         when p is small, out = p and reg[r] := p; otherwise bigok (below)
     big    {op, x, y, c, res, outs, bigok, cong}   operands up to 2^40 as decimal strings: NOT evaluated by TLC;
                                         bigok = result in (-1,1], reduced, d > 0; cong = result - exact result is
                                         an even integer (i128), both decided by the harness
     newraw {n, d, res, out, clifford, t}   Phase::new(Ratio::new_raw(n, d)): unreduced / negative-denominator Ratio values,
                                         which nothing in quizx produces (limit_denominator's new_raw results are coprime
                                         with d > 0: MC_Phase).  OBSERVATION ONLY, outside the property's quantifier: counted
                                         in stats (raw_inputs, raw_noncanonical, raw_wrong_class, raw_misclassified), never a violation
     mulph  {r, a, b, av, bv, res, out, out2}  reg[r] := reg[a] * reg[b]  (Mul<Phase>; out2: the same through *=)
     divph  {r, a, b, av, bv, res, out, out2}  reg[r] := reg[a] / reg[b]  (Div<Phase>; out2: through /=)
     divint {r, a, av, c, res, out, out2}      reg[r] := reg[a] / c       (Div<i64>;   out2: through /=)
                                         These multiply / divide the stored REPRESENTATIVES; the property does not say which
                                         class must come out (they are not defined modulo 2), only that what is stored is
                                         canonical.  A zero divisor (bv = 0, c = 0) is sent too: num::Ratio panics, which the
                                         property neither demands nor forbids (stats.div_by_zero, div_by_zero_panics).
     normalize {r, a, av, res, out}      reg[r] := reg[a].normalize()  (Phase::normalize called on a stored value)
     display {a, av, res, s}             format!("{}", reg[a]); observation + L1 (the property fixes no text format)
     bigring {op, x, y, c, res, outs, bigok, same, rep}   mulph / divph / divint with operands up to 2^30 / 2^40: harness-side
                                         booleans bigok (canonical), same (operator = assign form), rep (= transcription, L1)
     crash  {status, op}                 the dry run of the workload died (stack overflow, abort) or hung at request `op`
   res = ok | panic (message in msg) | bad (result not representable for TLC: d <= 0 or >= 2^15; decimal strings in outs)

   L2 (violations), each evaluated by TLC on the logged values:
     NewOK AddOK SubOK NegOK MulIntOK   out = Norm(exact rational result)  -- agrees with rational arithmetic mod 2
     Canonical                          out is in (-1,1], reduced, d > 0
     LimitOK                            out = Norm(x) for the x with IsBestApprox(x, av, m)  (declarative; x = out, or -1 when out = 1)
     PredsOK                            the flags are the class predicates ClsPauli .. ClsT, ClsZero, ClsOne of av
     CmpOK                              eq <=> same class modulo 2;  != is the negation of ==
     FloatRoundTrip, BigCanonical, BigCongruent    the harness-side booleans
     Canonical, AssignConsistent        mulph / divph / divint (non-zero divisor): out is in (-1,1], reduced, d > 0, and the
                                        assign form stored the same phase (out2 = out); BigAssignConsistent for the 2^40 batch
     NormalizeOK                        normalize() of a stored phase returns that phase (= Norm(av), canonical)
     NoPanic, NoCrash                   the property's operations are total on these inputs (division: non-zero divisors)
   L1 (drift): out = the transcription (NormImpl, LimitDenImpl, the code's Is* predicates on the stored value,
   from_f64 exact on dyadic inputs; RepArith: mulph / divph / divint = PMulRep / PDivRep / PDivIntRep of the operands;
   DisplayText: s = PhaseStr(av)); logged operands = the spec's registers.

   All operands are below 2^15 so that TLC's 32-bit products cannot overflow.  Operands near the 64-bit
   limit cannot be checked by TLC; the harness does not send them (only the `big` batch, judged by itself). *)
EXTENDS TraceLib, Phase
VARIABLES l, reg, viol, drift, stats
vars == <<l, reg, viol, drift, stats>>
Init == /\ l = 1 /\ reg = [i \in 0..3 |-> PZeroPh] /\ viol = <<>> /\ drift = <<>>
        /\ stats = [groups |-> 0, news |-> 0, arith |-> 0, limits |-> 0, limit_approx |-> 0, limit_ties |-> 0,
                    preds |-> 0, cmps |-> 0, cmp_equal |-> 0, floats |-> 0, floats_small |-> 0, bigs |-> 0,
                    wraps |-> 0, limit_bad |-> 0, raw_inputs |-> 0, raw_noncanonical |-> 0, raw_wrong_class |-> 0,
                    raw_misclassified |-> 0, ringops |-> 0, ring_wraps |-> 0, div_by_zero |-> 0, div_by_zero_panics |-> 0,
                    normalizes |-> 0, displays |-> 0, display_mismatch |-> 0, bigrings |-> 0, nontrivial |-> 0]
Chk(ok, name) == IF ok THEN <<>> ELSE <<<<l, name>>>>
\* the logged operands are what the spec's registers hold
RegsAgree(e) == (Has(e, "av") => reg[e.a] = e.av) /\ (Has(e, "bv") => reg[e.b] = e.bv)
RegDrift(e) == IF RegsAgree(e) THEN <<>> ELSE <<<<l, "Registers">>>>
B2I(b) == IF b THEN 1 ELSE 0
\* a result the code did not deliver in a usable form
Failed(e) == /\ viol' = Append(viol, <<l, IF e.res = "panic" THEN "NoPanic" ELSE "Canonical", e.k>>)
             /\ UNCHANGED <<reg, drift, stats>>
\* the exact rational result of an arithmetic event, before normalisation
Raw(e) == CASE e.k = "new" -> Reduce(<<e.n, e.d>>)
            [] e.k = "add" -> RAdd(e.av, e.bv)
            [] e.k = "sub" -> RSub(e.av, e.bv)
            [] e.k = "neg" -> RNeg(e.av)
            [] e.k = "mulint" -> RMulInt(e.av, e.c)
OkName(k) == CASE k = "new" -> "NewOK" [] k = "add" -> "AddOK" [] k = "sub" -> "SubOK" [] k = "neg" -> "NegOK" [] k = "mulint" -> "MulIntOK"
Arith(e) ==
  IF e.res # "ok" THEN Failed(e)
  ELSE LET raw == Raw(e)
           wrap == ~InRange(raw) \/ (e.k = "new" /\ raw # <<e.n, e.d>>)
       IN /\ viol' = viol \o Chk(e.out = Norm(raw), OkName(e.k)) \o Chk(Canonical(e.out), "Canonical")
          /\ drift' = (IF e.out = NormImpl(raw) THEN drift ELSE Append(drift, <<l, "NormImpl", e.k>>)) \o RegDrift(e)
          /\ reg' = [reg EXCEPT ![e.r] = e.out]
          /\ stats' = [stats EXCEPT !.news = @ + B2I(e.k = "new"), !.arith = @ + B2I(e.k # "new"),
                                    !.wraps = @ + B2I(wrap), !.nontrivial = @ + B2I(wrap)]
Limit(e) ==
  IF e.res # "ok" THEN Failed(e)
  ELSE LET p == e.av
           approx == p[2] > e.m
           \* the fraction the code normalised: av is in (-1,1] and -1, 1 are candidates, so the best
           \* approximation lies in [-1,1]; it is out itself, or -1 when out = 1
           best == InRange(e.out) /\ \E x \in {e.out} \cup (IF e.out = POnePh THEN {<<-1, 1>>} ELSE {}) : IsBestApprox(x, p, e.m)
       IN /\ viol' = viol \o Chk(best, "LimitOK") \o Chk(Canonical(e.out), "Canonical")
          /\ drift' = (IF e.out = PLimit(p, e.m) THEN drift ELSE Append(drift, <<l, "LimitDenImpl">>)) \o RegDrift(e)
          /\ reg' = [reg EXCEPT ![e.r] = e.out]
          \* limit_bad feeds the cross-check against CPython's Fraction (bin/plan_C16.py), which only looks at canonical operands
          \* (a non-canonical register is the after-effect of an earlier violation)
          /\ stats' = [stats EXCEPT !.limits = @ + 1, !.limit_bad = @ + B2I(~best /\ Canonical(p)), !.limit_approx = @ + B2I(approx), !.nontrivial = @ + B2I(approx),
                                    !.limit_ties = @ + B2I(approx /\ LimitIsTie(LimitDenImpl(p, e.m), p, e.m))]
Preds(e) ==
  IF e.res # "ok" THEN Failed(e)
  ELSE LET p == e.av
           cls == /\ e.pauli = ClsPauli(p) /\ e.clifford = ClsClifford(p) /\ e.proper = ClsProperClifford(p)
                  /\ e.t = ClsT(p) /\ e.zero = ClsZero(p) /\ e.one = ClsOne(p)
           impl == /\ e.pauli = IsPauli(p) /\ e.clifford = IsClifford(p) /\ e.proper = IsProperClifford(p)
                   /\ e.t = IsT(p) /\ e.zero = IsZero(p) /\ e.one = IsOne(p)
       IN /\ viol' = viol \o Chk(cls, "PredsOK")
          /\ drift' = (IF impl THEN drift ELSE Append(drift, <<l, "PredsImpl">>)) \o RegDrift(e)
          /\ stats' = [stats EXCEPT !.preds = @ + 1, !.nontrivial = @ + B2I(e.pauli \/ e.clifford \/ e.t)]
          /\ UNCHANGED reg
Cmp(e) ==
  IF e.res # "ok" THEN Failed(e)
  ELSE LET same == SameClass(e.av, e.bv)
       IN /\ viol' = viol \o Chk(e.eq = same /\ e.ne_consistent, "CmpOK")
          /\ stats' = [stats EXCEPT !.cmps = @ + 1, !.cmp_equal = @ + B2I(same), !.nontrivial = @ + B2I(same /\ e.a # e.b)]
          /\ drift' = drift \o RegDrift(e)
          /\ UNCHANGED reg
Float(e) ==
  IF e.res # "ok" THEN Failed(e)
  ELSE /\ viol' = viol \o Chk(e.fok, "FloatRoundTrip")
                       \o (IF e.small THEN Chk(Canonical(e.out), "Canonical") ELSE Chk(e.bigok, "BigCanonical"))
       /\ drift' = IF e.exact /\ e.small /\ e.out # Norm(<<e.n, e.d>>) THEN Append(drift, <<l, "FromF64Exact">>) ELSE drift
       /\ reg' = IF e.small THEN [reg EXCEPT ![e.r] = e.out] ELSE reg
       /\ stats' = [stats EXCEPT !.floats = @ + 1, !.floats_small = @ + B2I(e.small), !.nontrivial = @ + 1]
Big(e) ==
  IF e.res # "ok" THEN Failed(e)
  ELSE /\ viol' = viol \o Chk(e.bigok, "BigCanonical") \o Chk(e.cong, "BigCongruent")
       /\ stats' = [stats EXCEPT !.bigs = @ + 1]
       /\ UNCHANGED <<reg, drift>>
\* Mul<Phase>, Div<Phase>, Div<i64> and their assign forms
RingRaw(e) == CASE e.k = "mulph" -> RMul(e.av, e.bv) [] e.k = "divph" -> RDiv(e.av, e.bv) [] e.k = "divint" -> RDivInt(e.av, e.c)
ZeroDivisor(e) == (e.k = "divph" /\ e.bv[1] = 0) \/ (e.k = "divint" /\ e.c = 0)
Ring(e) ==
  IF ZeroDivisor(e) THEN          \* not promised either way: observed
       /\ stats' = [stats EXCEPT !.div_by_zero = @ + 1, !.div_by_zero_panics = @ + B2I(e.res = "panic")]
       /\ reg' = IF e.res = "ok" THEN [reg EXCEPT ![e.r] = e.out] ELSE reg
       /\ UNCHANGED <<viol, drift>>
  ELSE IF e.res # "ok" THEN Failed(e)
  ELSE LET raw == RingRaw(e)
       IN /\ viol' = viol \o Chk(Canonical(e.out), "Canonical") \o Chk(e.out2 = e.out, "AssignConsistent")
          /\ drift' = (IF e.out = NormImpl(raw) THEN drift ELSE Append(drift, <<l, "RepArith", e.k>>)) \o RegDrift(e)
          /\ reg' = [reg EXCEPT ![e.r] = e.out]
          /\ stats' = [stats EXCEPT !.ringops = @ + 1, !.ring_wraps = @ + B2I(~InRange(raw)), !.nontrivial = @ + 1]
Normalize(e) ==
  IF e.res # "ok" THEN Failed(e)
  ELSE /\ viol' = viol \o Chk(e.out = Norm(e.av) /\ Canonical(e.out), "NormalizeOK")
       /\ drift' = drift \o RegDrift(e)
       /\ reg' = [reg EXCEPT ![e.r] = e.out]
       /\ stats' = [stats EXCEPT !.normalizes = @ + 1]
Display(e) ==
  LET bad == e.res # "ok" \/ e.s # PhaseStr(e.av) IN
  /\ stats' = [stats EXCEPT !.displays = @ + 1, !.display_mismatch = @ + B2I(bad)]
  /\ drift' = IF bad THEN Append(drift, <<l, "DisplayText">>) ELSE drift
  /\ UNCHANGED <<reg, viol>>
BigRing(e) ==
  IF e.res # "ok" THEN Failed(e)
  ELSE /\ viol' = viol \o Chk(e.bigok, "BigCanonical") \o Chk(e.same, "BigAssignConsistent")
       /\ drift' = IF e.rep THEN drift ELSE Append(drift, <<l, "RepArith", e.op>>)
       /\ stats' = [stats EXCEPT !.bigrings = @ + 1]
       /\ UNCHANGED reg
NewRaw(e) ==
  /\ stats' = IF e.res # "ok" THEN [stats EXCEPT !.raw_inputs = @ + 1, !.raw_noncanonical = @ + 1]
              ELSE [stats EXCEPT !.raw_inputs = @ + 1, !.raw_noncanonical = @ + B2I(~Canonical(e.out)),
                                 !.raw_wrong_class = @ + B2I(~SameClass(e.out, <<e.n, e.d>>)),
                                 !.raw_misclassified = @ + B2I(e.clifford # ClsClifford(<<e.n, e.d>>) \/ e.t # ClsT(<<e.n, e.d>>))]
  \* A REDUCED fraction written with a negative denominator (Ratio::new_raw(n, -d), gcd 1) is a rational like any other
  \* ("negative denominators" are named in the property): Phase::new must store the canonical representative of its class and
  \* classify it by the class. Unreduced raw ratios break num::Ratio's own invariant and stay an observation.
  /\ viol' = IF e.d # 0 /\ Gcd(PAbs(e.n), PAbs(e.d)) = 1 THEN
               (IF e.res # "ok" THEN <<<<l, "NoPanic", "newraw">>>>
                ELSE (IF Canonical(e.out) /\ SameClass(e.out, <<e.n, e.d>>) THEN <<>> ELSE <<<<l, "RawCanonical", e.n, e.d>>>>)
                     \o (IF e.clifford = ClsClifford(<<e.n, e.d>>) /\ e.t = ClsT(<<e.n, e.d>>) THEN <<>> ELSE <<<<l, "RawClassified", e.n, e.d>>>>)) \o viol
             ELSE viol
  /\ UNCHANGED <<reg, drift>>
Step(e) ==
  CASE e.k = "begin" -> /\ reg' = [i \in 0..(e.regs - 1) |-> PZeroPh]
                        /\ stats' = [stats EXCEPT !.groups = @ + 1]
                        /\ UNCHANGED <<viol, drift>>
    [] e.k \in {"new", "add", "sub", "neg", "mulint"} -> Arith(e)
    [] e.k = "limit" -> Limit(e)
    [] e.k = "preds" -> Preds(e)
    [] e.k = "cmp" -> Cmp(e)
    [] e.k = "f64" -> Float(e)
    [] e.k = "big" -> Big(e)
    [] e.k = "newraw" -> NewRaw(e)
    [] e.k \in {"mulph", "divph", "divint"} -> Ring(e)
    [] e.k = "normalize" -> Normalize(e)
    [] e.k = "display" -> Display(e)
    [] e.k = "bigring" -> BigRing(e)
    [] e.k = "crash" -> viol' = Append(viol, <<l, "NoCrash", e.status>>) /\ UNCHANGED <<reg, drift, stats>>
Next == \/ /\ l <= NLines /\ Step(Rec[l]) /\ l' = l + 1
        \/ /\ l = NLines + 1 /\ Report(l, viol, drift, stats) /\ l' = l + 1 /\ UNCHANGED <<reg, viol, drift, stats>>
=============================================================================
