CONSTANTS K = 6
TPH = {1}
SHAPE = "cat"
NB = 1
HUBPH = {0, 4}
EXTRA = FALSE
CANDMAX = 3
ALLORD = FALSE
INIT Init
NEXT Next
INVARIANT StepSumOK
CHECK_DEADLOCK FALSE
