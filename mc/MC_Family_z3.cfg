CONSTANTS K = 3
TYS = {"Z"}
PHS = {0,2}
ETS = {"H"}
NB = 1
VARS = {}
BB = FALSE
INIT Init
NEXT Next
INVARIANT Emit
CHECK_DEADLOCK FALSE
