CONSTANTS GRAPHS <- GraphsQ
NORMALIZE = TRUE
INIT Init
NEXT NextD
INVARIANT InvNoPanic
INVARIANT InvValidTree
INVARIANT InvCacheCoherent
INVARIANT InvWidthOK
INVARIANT InvQueries
CHECK_DEADLOCK FALSE
