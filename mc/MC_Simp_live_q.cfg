CONSTANTS K = 2
TYS = {"Z","X"}
PHS = {0,1,2,4}
ETS = {"N","H"}
NB = 2
VARS = {}
BB = FALSE
STRAT = "full"
SPECIFICATION Spec
INVARIANT Sound
INVARIANT NoPanicInv
PROPERTY Terminates
CHECK_DEADLOCK FALSE
