CONSTANTS K = 3
PHS = {1, 2, 7}
KMAX = 2
SCALARS <- ScQ
INIT Init
NEXT Next
INVARIANT TreeInv
INVARIANT ResumeOK
INVARIANT DepthZero
CHECK_DEADLOCK FALSE
