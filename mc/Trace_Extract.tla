---------------------------- MODULE Trace_Extract ----------------------------
(* C03: validation of recorded optimise-and-extract runs (library API and `quizx opt` CLI).
   circ    : the source circuit c; U0 = CircSem(c)
   extract : to_graph -> simp -> one way of extracting offered by the public API, in one backend.  Modes:
               gflow / simple / perm / flow            Extractor::new + gflow() / gflow_simple_gauss() / gflow().up_to_perm() / flow()
               simple_perm / perm_simple / flow_perm   up_to_perm() combined with the other two Gauss strategies (both call orders)
               wg_simple / wg_single / wg_none / wg_custom   with_gaussf(f) with the pub strategies passed explicitly / a caller's function
               to_circuit / to_circuit_mut / extractor_default / extractor_simple   the ToCircuit entry points
             L2 ExtractOK: result is Ok, on the same qubits, basic gates only (H, Z-phase, CZ, CNOT, SWAP),
             and ProjEq(CircSem(out), U0) with a non-zero factor; in the up-to-permutation modes: for some permutation of
             the input qubits.
             The property promises the Gauss-free flow extractor only after the flow strategy: flow-like modes after
             clifford / full simplification are RECORDED (stats counters unpromised, unpromised_ok_equiv, ...), never judged.
   cli_opt : expect = ok:     the printed QASM parsed back: exit 0, no panic, same contract
             expect = reject: an invocation with nothing to print (two method flags, missing / unparsable input):
                              L2 CliRejects: non-zero exit, no panic, no QASM printed, no output file
   begin / extractf (engine flag --generic): the "arbitrary rational Z/X phases" of C03's quantifier: a unitary source circuit with rz / rx /
             parity-phase angles that are NOT multiples of pi/4 (no exact meaning in Ring; `c` keeps only the qubit count) through the
             promised strategy x extractor combinations.  TLC cannot decide floating point: the harness evaluates source and result
             with its float gate-matrix evaluator (harness/src/refeval.rs ref_circ, the matrices of spec/Circuit.tla, validated against
             CircSem by Trace_Tensor!RefEvalOK) and logs the boolean `close` = proportional with a non-zero factor at 1e-9 (for some
             permutation of the input qubits in the up-to-permutation modes); the qubit count and the gate kinds of the result are
             logged as values.  L2 ExtractOKFloat: close, e.n = c.n, kinds within ExtractKinds; ExtractionSucceeds / Terminates / NoPanic *)
EXTENDS TraceLib, ToGraph, FiniteSets, FiniteSetsExt
VARIABLES l, c, u0, viol, drift, stats
vars == <<l, c, u0, viol, drift, stats>>
Init == l = 1 /\ c = [n |-> 0, gates |-> <<>>] /\ u0 = <<>> /\ viol = <<>> /\ drift = <<>>
        /\ stats = [circuits |-> 0, extractions |-> 0, cli |-> 0, nontrivial |-> 0, smaller |-> 0,
                    perm_modes |-> 0, entry_points |-> 0, explicit_gaussf |-> 0, cli_rejects |-> 0,
                    unpromised |-> 0, unpromised_ok_equiv |-> 0, unpromised_ok_wrong |-> 0, unpromised_err |-> 0,
                    generic_circuits |-> 0, generic_extractions |-> 0, generic_ok |-> 0]
ExtractKinds == {"HAD", "ZPhase", "CZ", "CNOT", "SWAP"}
BasicOnly(o) == \A i \in 1..Len(o.gates) : o.gates[i].t \in ExtractKinds
Perms(n) == {p \in [1..n -> 1..n] : \A i, j \in 1..n : i # j => p[i] # p[j]}
Equivalent(o) == o.n = c.n /\ ~TIsZero(CircSem(o)) /\ ProjEq(CircSem(o), u0)
EquivUpToPerm(o) == o.n = c.n /\ LET s == CircSem(o) IN
                    ~TIsZero(s) /\ \E p \in Perms(c.n) : ProjEq(Compose(PermTensor(c.n, p), c.n, c.n, s, c.n), u0)
\* which modes answer up to a permutation, which use the Gauss-free (causal flow) extractor
PermMode(m) == m \in {"perm", "simple_perm", "perm_simple", "flow_perm"}
FlowMode(m) == m \in {"flow", "flow_perm", "wg_none"}
\* the quantifier of C03: every strategy with the gflow extractors; the flow extractor with the flow strategy only
Promised(simp, m) == FlowMode(m) => simp = "flow"
ResultOK(e) == LET o == CircFromAbs(e.out) IN BasicOnly(o) /\ (IF PermMode(e.mode) THEN EquivUpToPerm(o) ELSE Equivalent(o))
B(x) == IF x THEN 1 ELSE 0
Step(e) ==
  CASE e.k = "circ" ->
         LET cc == CircFromAbs(e.c) IN c' = cc /\ u0' = CircSem(cc) /\ stats' = [stats EXCEPT !.circuits = @ + 1] /\ UNCHANGED <<viol, drift>>
    [] e.k = "extract" ->
         IF ~Promised(e.simp, e.mode) THEN
           \* not promised to succeed: what happened is counted; a panic or a non-terminating run is not data about C03 either
           /\ stats' = [stats EXCEPT !.unpromised = @ + 1, !.unpromised_err = @ + B(e.res # "ok"),
                                     !.unpromised_ok_equiv = @ + B(e.res = "ok" /\ ResultOK(e)),
                                     !.unpromised_ok_wrong = @ + B(e.res = "ok" /\ ~ResultOK(e))]
           /\ UNCHANGED <<c, u0, viol, drift>>
         ELSE IF e.res # "ok" THEN
           /\ viol' = Append(viol, <<l, IF e.res = "error" THEN "ExtractionSucceeds" ELSE IF e.res = "timeout" THEN "Terminates" ELSE "NoPanic", e.simp, e.mode>>)
           /\ stats' = [stats EXCEPT !.extractions = @ + 1] /\ UNCHANGED <<c, u0, drift>>
         ELSE
           LET o == CircFromAbs(e.out)
               ok == ResultOK(e)
           IN /\ viol' = IF ok THEN viol ELSE Append(viol, <<l, "ExtractOK", e.simp, e.mode>>)
              /\ stats' = [stats EXCEPT !.extractions = @ + 1, !.nontrivial = @ + (IF Len(c.gates) > 0 THEN 1 ELSE 0),
                                        !.smaller = @ + (IF Len(o.gates) < Len(c.gates) THEN 1 ELSE 0),
                                        !.perm_modes = @ + B(PermMode(e.mode)),
                                        !.entry_points = @ + B(e.mode \in {"to_circuit", "to_circuit_mut", "extractor_default", "extractor_simple"}),
                                        !.explicit_gaussf = @ + B(e.mode \in {"wg_simple", "wg_single", "wg_none", "wg_custom"})]
              /\ UNCHANGED <<c, u0, drift>>
    [] e.k = "begin" ->
         /\ c' = [n |-> e.c.n, gates |-> <<>>] /\ u0' = <<>> /\ stats' = [stats EXCEPT !.generic_circuits = @ + 1] /\ UNCHANGED <<viol, drift>>
    [] e.k = "extractf" ->
         LET ok == e.res = "ok" /\ e.close /\ e.n = c.n /\ \A i \in 1..Len(e.kinds) : e.kinds[i] \in ExtractKinds IN
         /\ viol' = IF ~Promised(e.simp, e.mode) THEN viol
                    ELSE IF e.res # "ok" THEN Append(viol, <<l, IF e.res = "error" THEN "ExtractionSucceeds" ELSE IF e.res = "timeout" THEN "Terminates" ELSE "NoPanic", e.simp, e.mode>>)
                    ELSE IF ok THEN viol ELSE Append(viol, <<l, "ExtractOKFloat", e.simp, e.mode>>)
         /\ stats' = [stats EXCEPT !.generic_extractions = @ + 1, !.generic_ok = @ + B(ok), !.nontrivial = @ + B(ok)]
         /\ UNCHANGED <<c, u0, drift>>
    [] e.k = "cli_opt" ->
         IF Has(e, "expect") /\ e.expect = "reject" THEN
           /\ viol' = IF e.exit # 0 /\ ~e.panicked /\ ~e.printed_qasm /\ ~e.wrote_file THEN viol
                      ELSE Append(viol, <<l, "CliRejects", e.method, e.exit>>)
           /\ stats' = [stats EXCEPT !.cli = @ + 1, !.cli_rejects = @ + 1] /\ UNCHANGED <<c, u0, drift>>
         ELSE
           /\ viol' = IF e.res # "ok" \/ e.panicked THEN Append(viol, <<l, "CliSucceeds", e.method, e.res>>)
                      ELSE LET o == CircFromAbs(e.out) IN
                           IF BasicOnly(o) /\ Equivalent(o) THEN viol ELSE Append(viol, <<l, "CliOutputOK", e.method>>)
           /\ stats' = [stats EXCEPT !.cli = @ + 1] /\ UNCHANGED <<c, u0, drift>>
Next == \/ /\ l <= NLines /\ Step(Rec[l]) /\ l' = l + 1
        \/ /\ l = NLines + 1 /\ Report(l, viol, drift, stats) /\ l' = l + 1 /\ UNCHANGED <<c, u0, viol, drift, stats>>
=============================================================================
