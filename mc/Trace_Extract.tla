---------------------------- MODULE Trace_Extract ----------------------------
(* C03: validation of recorded optimise-and-extract runs (library API and `quizx opt` CLI).
   circ    : the source circuit c; U0 = CircSem(c)
   extract : to_graph -> simp -> Extractor(mode).extract() in one backend
             L2 ExtractOK: result is Ok, on the same qubits, basic gates only (H, Z-phase, CZ, CNOT, SWAP),
             and ProjEq(CircSem(out), U0) with a non-zero factor; in `perm` mode: for some permutation of
             the input qubits
   cli_opt : the printed QASM parsed back: exit 0, no panic, same contract *)
EXTENDS TraceLib, ToGraph, FiniteSets, FiniteSetsExt
VARIABLES l, c, u0, viol, drift, stats
vars == <<l, c, u0, viol, drift, stats>>
Init == l = 1 /\ c = [n |-> 0, gates |-> <<>>] /\ u0 = <<>> /\ viol = <<>> /\ drift = <<>>
        /\ stats = [circuits |-> 0, extractions |-> 0, cli |-> 0, nontrivial |-> 0, smaller |-> 0]
ExtractKinds == {"HAD", "ZPhase", "CZ", "CNOT", "SWAP"}
BasicOnly(o) == \A i \in 1..Len(o.gates) : o.gates[i].t \in ExtractKinds
Perms(n) == {p \in [1..n -> 1..n] : \A i, j \in 1..n : i # j => p[i] # p[j]}
Equivalent(o) == o.n = c.n /\ ~TIsZero(CircSem(o)) /\ ProjEq(CircSem(o), u0)
EquivUpToPerm(o) == o.n = c.n /\ LET s == CircSem(o) IN
                    ~TIsZero(s) /\ \E p \in Perms(c.n) : ProjEq(Compose(PermTensor(c.n, p), c.n, c.n, s, c.n), u0)
Step(e) ==
  CASE e.k = "circ" ->
         LET cc == CircFromAbs(e.c) IN c' = cc /\ u0' = CircSem(cc) /\ stats' = [stats EXCEPT !.circuits = @ + 1] /\ UNCHANGED <<viol, drift>>
    [] e.k = "extract" ->
         IF e.res # "ok" THEN
           /\ viol' = Append(viol, <<l, IF e.res = "error" THEN "ExtractionSucceeds" ELSE IF e.res = "timeout" THEN "Terminates" ELSE "NoPanic", e.simp, e.mode>>)
           /\ stats' = [stats EXCEPT !.extractions = @ + 1] /\ UNCHANGED <<c, u0, drift>>
         ELSE
           LET o == CircFromAbs(e.out)
               ok == BasicOnly(o) /\ (IF e.mode = "perm" THEN EquivUpToPerm(o) ELSE Equivalent(o))
           IN /\ viol' = IF ok THEN viol ELSE Append(viol, <<l, "ExtractOK", e.simp, e.mode>>)
              /\ stats' = [stats EXCEPT !.extractions = @ + 1, !.nontrivial = @ + (IF Len(c.gates) > 0 THEN 1 ELSE 0),
                                        !.smaller = @ + (IF Len(o.gates) < Len(c.gates) THEN 1 ELSE 0)]
              /\ UNCHANGED <<c, u0, drift>>
    [] e.k = "cli_opt" ->
         /\ viol' = IF e.res # "ok" \/ e.panicked THEN Append(viol, <<l, "CliSucceeds", e.method, e.res>>)
                    ELSE LET o == CircFromAbs(e.out) IN
                         IF BasicOnly(o) /\ Equivalent(o) THEN viol ELSE Append(viol, <<l, "CliOutputOK", e.method>>)
         /\ stats' = [stats EXCEPT !.cli = @ + 1] /\ UNCHANGED <<c, u0, drift>>
Next == \/ /\ l <= NLines /\ Step(Rec[l]) /\ l' = l + 1
        \/ /\ l = NLines + 1 /\ Report(l, viol, drift, stats) /\ l' = l + 1 /\ UNCHANGED <<c, u0, viol, drift, stats>>
=============================================================================
