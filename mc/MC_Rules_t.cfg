CONSTANTS K = 3
TYS = {"Z","X"}
PHS = {0,1,2,3,4,6}
ETS = {"N","H"}
NB = 1
VARS = {}
BB = FALSE
INIT Init
NEXT Next
INVARIANT Sound
INVARIANT NoPanicInv
INVARIANT StaysWF
CHECK_DEADLOCK FALSE
