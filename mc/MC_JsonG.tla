------------------------------ MODULE MC_JsonG ------------------------------
(* C13 on the specification: for every diagram of the family (Family.tla: K spiders Z/X[/H-box],
   phases in units of pi/4, inner edges of both types, <= NB boundaries attached by N or H edges,
   optional boundary-to-boundary wire), every scalar of ScalarSeq[1..SCN] and every coordinate
   layout of CMS the transcribed encoder / decoder of spec/JsonG.tla satisfy
     NoPanicRT    neither direction panics
     DocOK        the document is well formed (names unique, every edge endpoint declared, virtual
                  hadamard nodes have exactly two edges to real vertices, input / output indices are
                  0..n-1), joins no pair twice and uses plain edges only
     RoundTripIso Decode(Encode(g)) is isomorphic to g, anchored on inputs / outputs, preserving
                  types, phases, edge types and coordinates
     RoundTripDen Den(Decode(Encode(g))) = Den(g)
     ScalarRT     sqrt2^p e^{i k pi/4} (and 0) come back as the same ring element; other values are
                  handed to the float factor
     DecodeOrder  decoding does not depend on the iteration order of the three maps
     IsoAgree     the two isomorphism searches (direct / refinement) agree, also on perturbed diagrams
     IsoSharp     the isomorphism test rejects a bumped phase, a flipped edge type, a moved vertex
   RoundTripDen is evaluated for the layout "zero" only (coordinates do not enter the denotation).
   MUT # "none" damages the document between Encode and Decode (the faults DESIGN.md lists for C13:
   hadamard node without is_edge, input order from the map position, wire coordinates dropped, a
   dangling virtual node).  Every plan config has MUT = "none"; with any other value (set it in a
   copy of MC_JsonG_sc.cfg) RoundTripIso resp. NoPanicRT must FAIL: a sanity check of the
   invariants done by hand, not part of the plan. *)
EXTENDS Family, JsonG
CONSTANTS SCN, CMS, MUT
VARIABLES g, cm, mode, enc, dec       \* enc, dec: Encode / Decode results, computed once per diagram in B3
vars == <<g, cm, mode, enc, dec>>

ScalarSeq == << ROne,
                Sqrt2Pow(-3),                         \* exact class
                RMul(Omega(5), Sqrt2Pow(4)),
                RZero,
                <<1, 2, 0, 0, 0>>,                    \* 1 + 2w: a generic ring element
                Omega(3),
                <<3, 0, -1, 0, -4>>,                  \* (3 - w^2) / 16
                RMul(Omega(6), Sqrt2Pow(-7)),
                RNeg(ROne),
                <<0, 3, 0, 0, 1>> >>                  \* 6 w: one coefficient, not a power of two

\* coordinate layouts in units of 0.001 (multiples of 0.1 as in the traces)
Crd(x, m) == CASE m = "zero"     -> [v \in x.vs |-> <<0, 0>>]
               [] m = "distinct" -> [v \in x.vs |-> <<100 * v, 300 - 200 * v>>]
               [] m = "rows"     -> [v \in x.vs |-> <<100 * (v % 2), -500>>]


\* ----- faults injected into the document (sanity of the invariants) -----
Mutate(doc) ==
  CASE MUT = "none" -> doc
    [] MUT = "no_is_edge" ->          \* the hadamard node is written without the is_edge flag
         [doc EXCEPT !.node_vertices = [i \in DOMAIN @ |-> [@[i] EXCEPT !.is_edge = FALSE]]]
    [] MUT = "input_by_order" ->      \* input order from the position in the map instead of the index
         [doc EXCEPT !.wire_vertices = [i \in DOMAIN @ |->
             [@[i] EXCEPT !.input = IF @ = JNone THEN JNone
                                    ELSE Cardinality({k \in 1..Len(doc.wire_vertices) : k > i /\ doc.wire_vertices[k].input # JNone})]]]
    [] MUT = "drop_wire_coord" ->
         [doc EXCEPT !.wire_vertices = [i \in DOMAIN @ |-> [@[i] EXCEPT !.coord = <<0, 0>>]]]
    [] MUT = "dangling" ->            \* the second half of a virtual edge is lost
         [doc EXCEPT !.undir_edges = SelectSeq(@, LAMBDA e : ~(\E i \in 1..Len(doc.node_vertices) :
                                                  IsHNode(doc.node_vertices[i]) /\ doc.node_vertices[i].name = e.src))]

Init == g = EmptyG /\ cm = "zero" /\ mode = "b1" /\ enc = Encode(EmptyG, <<>>) /\ dec = Decode(Encode(EmptyG, <<>>).doc)
B1 == mode = "b1" /\ g' \in Shapes /\ mode' = "b2" /\ UNCHANGED <<cm, enc, dec>>
B2 == mode = "b2" /\ g' \in Wirings(g) /\ mode' = "b3" /\ UNCHANGED <<cm, enc, dec>>
B3 == /\ mode = "b3" /\ \E i \in 1..SCN : g' = [g EXCEPT !.sc = ScalarSeq[i]]
      /\ cm' \in CMS /\ mode' = "done"
      /\ enc' = [Encode(g', Crd(g', cm')) EXCEPT !.doc = Mutate(@)]
      /\ dec' = Decode(enc'.doc)
Next == B1 \/ B2 \/ B3

crd == Crd(g, cm)
doc == enc.doc
Done == mode = "done"

NoPanicRT == Done => ~enc.panic /\ ~dec.panic /\ ~dec.unsupported
DocOK == Done => DocWF(doc) /\ DocSimple(doc) /\ DocPlain(doc)
RoundTripIso == Done => ~dec.panic /\ IsoAnchoredC(dec.g, dec.cg, g, crd)
Unit(x) == [x EXCEPT !.sc = ROne]
\* coordinates do not enter the denotation: evaluated for one layout only
RoundTripDen == Done /\ cm = "zero" => ~dec.panic /\ IF ScalarExactDoc(doc.scalar) THEN Den(dec.g) = Den(g)
                                       ELSE Den(Unit(dec.g)) = Den(Unit(g))
ScalarRT == Done => IF ExactPhasePow(g.sc)[1] \/ g.sc = RZero
                    THEN ScalarExactDoc(doc.scalar) /\ DecodeScalar(doc.scalar) = g.sc /\ dec.g.sc = g.sc
                    ELSE doc.scalar.present /\ doc.scalar.ff = "other" /\ ~doc.scalar.is_zero /\ doc.scalar.power2 = 0
RevDoc(d) == [d EXCEPT !.node_vertices = Reverse(@), !.wire_vertices = Reverse(@), !.undir_edges = Reverse(@)]
\* every virtual node listed before / after the real ones, edges rotated: other iteration orders of the maps
RotDoc(d) == [d EXCEPT !.node_vertices = SelectSeq(@, IsHNode) \o SelectSeq(@, LAMBDA n : ~IsHNode(n)),
                       !.undir_edges = IF @ = <<>> THEN @ ELSE Tail(@) \o <<Head(@)>>]
DecodeOrder == Done => /\ LET r == Decode(RevDoc(doc)) IN ~r.panic /\ IsoAnchoredC(r.g, r.cg, g, crd) /\ r.g.sc = dec.g.sc
                       /\ LET r == Decode(RotDoc(doc)) IN ~r.panic /\ IsoAnchoredC(r.g, r.cg, g, crd) /\ r.g.sc = dec.g.sc

\* ----- documents in the shapes of other writers (config MC_JsonG_f; audit #24) -----
\* What Trace_JsonG demands of `foreign` events holds of the TRANSCRIBED decoder for every diagram of the family:
\*   ForeignTypedH    the document with every virtual node replaced by ONE hadamard-typed edge decodes to g
\*   ForeignParallel  the document plus one more edge (plain or hadamard-typed, met first or last) between any two Z/X
\*                    spiders decodes to a diagram that denotes what the multigraph denotes (WithParallel: the extra
\*                    edge through a phase-free Z spider), scalar included (no scalar field: g.sc = 1)
NameOf(v) == LET V == SetToSortSeq(g.vs, <)
             IN IF g.ty[v] = "B" THEN "b" \o ToString(PosIn(SelectSeq(V, LAMBDA x : g.ty[x] = "B"), v))
                ELSE "v" \o ToString(PosIn(SelectSeq(V, LAMBDA x : g.ty[x] # "B"), v))
TypedDoc(d) ==
  LET N == d.node_vertices
      E == d.undir_edges
      hs == SelectSeq(N, IsHNode)
      hn == {hs[i].name : i \in 1..Len(hs)}
      ends(h) == LET inc == SelectSeq(E, LAMBDA e : e.src = h \/ e.tgt = h)
                 IN [k \in 1..Len(inc) |-> IF inc[k].src = h THEN inc[k].tgt ELSE inc[k].src]
  IN [d EXCEPT !.node_vertices = SelectSeq(N, LAMBDA n : ~IsHNode(n)),
               !.undir_edges = SelectSeq(E, LAMBDA e : e.src \notin hn /\ e.tgt \notin hn)
                               \o [i \in 1..Len(hs) |-> [src |-> ends(hs[i].name)[1], tgt |-> ends(hs[i].name)[2], type |-> "hadamard"]]]
ForeignTypedH == Done => LET r == Decode(TypedDoc(doc))
                         IN ~r.panic /\ ~r.unsupported /\ IsoAnchoredC(r.g, r.cg, g, crd) /\ r.g.sc = dec.g.sc
ZXPairs == {p \in Spiders(g) \X Spiders(g) : p[1] < p[2] /\ g.ty[p[1]] \in {"Z", "X"} /\ g.ty[p[2]] \in {"Z", "X"}}
ForeignParallel ==
  Done /\ g.sc = ROne => \A p \in ZXPairs : \A t \in {"N", "H"} : \A typed \in BOOLEAN :
    LET base == IF typed THEN TypedDoc(doc) ELSE doc
        extra == [src |-> NameOf(p[1]), tgt |-> NameOf(p[2]), type |-> IF t = "H" THEN "hadamard" ELSE "simple"]
        r1 == Decode([base EXCEPT !.undir_edges = <<extra>> \o @])
        r2 == Decode([base EXCEPT !.undir_edges = Append(@, extra)])
        want == Den(WithParallel(g, <<<<p[1], p[2], t>>>>))
    IN ~r1.panic /\ ~r2.panic /\ Den(r1.g) = want /\ Den(r2.g) = want

\* ----- the isomorphism test itself -----
FirstSpider == Min(Spiders(g))
PhaseBump == [g EXCEPT !.ph[FirstSpider] = (@ + 1) % 8]
TypeFlip == [g EXCEPT !.ty[FirstSpider] = IF @ = "Z" THEN "X" ELSE "Z"]
FirstEdge == CHOOSE e \in DOMAIN g.et : \A f \in DOMAIN g.et : Min(e) < Min(f) \/ (Min(e) = Min(f) /\ Max(e) <= Max(f))
EdgeFlip == [g EXCEPT !.et[FirstEdge] = Opp(@)]
SwapIns == [g EXCEPT !.ins = IF Len(@) >= 2 THEN <<@[2], @[1]>> \o SubSeq(@, 3, Len(@)) ELSE @]
InOut == [g EXCEPT !.ins = IF Len(g.ins) >= 1 /\ Len(g.outs) >= 1 THEN <<g.outs[1]>> \o Tail(g.ins) ELSE @,
                   !.outs = IF Len(g.ins) >= 1 /\ Len(g.outs) >= 1 THEN <<g.ins[1]>> \o Tail(g.outs) ELSE @]
Moved == [crd EXCEPT ![Min(g.vs)] = <<@[1] + 100, @[2]>>]
Variants == {g, SwapIns, InOut} \cup (IF Spiders(g) # {} THEN {PhaseBump, TypeFlip} ELSE {})
            \cup (IF DOMAIN g.et # {} THEN {EdgeFlip} ELSE {})
IsoAgree == Done /\ ~dec.panic => \A x \in Variants : IsoDirect(dec.g, dec.cg, x, crd) = IsoRefine(dec.g, dec.cg, x, crd)
IsoSharp == Done /\ ~dec.panic =>
              /\ Spiders(g) # {} => ~IsoAnchoredC(dec.g, dec.cg, PhaseBump, crd) /\ ~IsoAnchoredC(dec.g, dec.cg, TypeFlip, crd)
              /\ DOMAIN g.et # {} => ~IsoAnchoredC(dec.g, dec.cg, EdgeFlip, crd)
              /\ g.vs # {} => ~IsoAnchoredC(dec.g, dec.cg, g, Moved)
=============================================================================
