CONSTANTS NQ = 3
MAXLEN = 3
ONEQ = {"NOT", "Z", "S", "T", "Sdg", "Tdg", "HAD", "InitAncilla", "PostSelect"}
TWOQ = {"CNOT", "CZ", "SWAP", "XCX"}
THREEQ = {"TOFF", "CCZ"}
PHS <- PHS_t
OUTQ = {"ParityPhase", "MeasureReset", "Measure"}
SIZES = {1, 2, 3}
MAXREGS = 2
MAXST = 3
GN1 = {"h", "init_anc"}
GN2 = {"cz"}
GN3 = {}
PARS <- PARS_t
UNDEF = {"pp", "measure_r", "cy", "foo"}
INIT Init
NEXT Next
INVARIANT RoundTripInv
INVARIANT DomainCovered
INVARIANT OutsideInv
INVARIANT PrintShape
INVARIANT NameTableInverse
INVARIANT OffsetsInOrder
INVARIANT ErrAbsorbing
INVARIANT NothingDropped
INVARIANT UnsupportedIsErr
INVARIANT SupportedIsOk
INVARIANT Reprint
CHECK_DEADLOCK FALSE
