CONSTANTS K = 4
PHS = {1, 2}
KMAX = 2
SCALARS <- ScOne
INIT Init
NEXT Next
INVARIANT TreeInv
INVARIANT ResumeOK
INVARIANT DepthZero
CHECK_DEADLOCK FALSE
